// Common worker-side machinery shared by all harnesses (engines E1 xstate, E2 xenum, E3 xsched).
//
// A harness executable is ONE WORKER of an enumeration. The driver (bin/check) starts N of them with
//   --tier quick|thorough --shard i --nshards N --out <jsonl> --progress <file> [--from k] [--only k]
//   [--replay-case <text>] [--deadline <seconds>] [--seed n]
// The worker enumerates "cases" (deterministic order, global index 0,1,2,...), executes the ones of its
// shard (index % nshards == shard), and appends JSON lines to --out:
//   {"t":"viol","sig":..,"detail":..,"replay":..,"case":n}   first example of every violation signature (+ count at end)
//   {"t":"stats",...}                                         counters, distinct outcomes, samples, flags
// Before a case runs, its index is stored in the mmap'ed progress file, so that the driver knows which
// case killed a worker (sanitizer abort, signal, hang) and can restart the shard behind it.
#pragma once
#include <cstdint>
#include <cstdio>
#include <cstdlib>
#include <cstring>
#include <string>
#include <vector>
#include <map>
#include <set>
#include <unordered_set>
#include <functional>
#include <chrono>
#include <fcntl.h>
#include <sys/mman.h>
#include <unistd.h>

namespace vf {

struct Progress {            // shared with the driver through an mmap'ed file
   volatile uint64_t case_idx;     // case currently executing
   volatile uint64_t heartbeat;    // incremented on every execution of implementation code
   volatile uint64_t started;      // 1 once the worker is in its enumeration loop
   volatile uint64_t done;         // 1 when the worker finished its shard normally
   char     note[480];             // free text describing the current sub-case (for crash reports)
};

struct Ctx {
   std::string tier = "quick";
   unsigned    shard = 0, nshards = 1;
   uint64_t    from = 0;
   int64_t     only = -1;
   std::string replay;             // harness specific case text ("" = none)
   bool        have_replay = false;
   double      deadline = 1e18;    // seconds of wall time this worker may use
   uint64_t    seed = 0;
   std::string out, progress_path;
   FILE*       outf = nullptr;
   Progress*   prog = nullptr;
   Progress    local_prog{};
   std::chrono::steady_clock::time_point t0;
   bool        verbose = false;    // replay / --only mode: harness prints what it does
   bool        capped = false;     // deadline hit: enumeration stopped early
   uint64_t    cases_run = 0, next_case = 0;
   std::map<std::string, uint64_t> counters;
   std::map<std::string, std::string> notes;                // free-form facts for the evidence (last write wins)
   std::set<std::string> outcomes;                          // distinct observed outcomes (bounded)
   std::unordered_set<uint64_t> nontrivial;                 // hashes of distinct non-trivial cases
   uint64_t    nontrivial_overflow = 0;                     // counted but not hashed any more (memory bound)
   std::vector<std::string> samples;
   struct Viol { uint64_t count = 0; uint64_t case_idx = 0; std::string detail, replay; };
   std::map<std::string, Viol> viols;
   uint64_t    max_sigs = 200;
};

inline Ctx& ctx() { static Ctx c; return c; }

inline std::string jesc(const std::string& s) {
   std::string o; o.reserve(s.size() + 8);
   for (unsigned char c : s) {
      switch (c) {
      case '"': o += "\\\""; break;
      case '\\': o += "\\\\"; break;
      case '\n': o += "\\n"; break;
      case '\r': o += "\\r"; break;
      case '\t': o += "\\t"; break;
      default:
         if (c < 0x20 || c >= 0x7f) { char b[8]; snprintf(b, sizeof b, "\\u%04x", c); o += b; }
         else o += char(c);
      }
   }
   return o;
}

// printable form of arbitrary bytes for case descriptions (reversible: \xNN)
inline std::string vis(const std::string& s) {
   std::string o;
   for (unsigned char c : s) {
      if (c == '\\') o += "\\\\";
      else if (c < 0x20 || c >= 0x7f) { char b[8]; snprintf(b, sizeof b, "\\x%02x", c); o += b; }
      else o += char(c);
   }
   return o;
}

inline uint64_t fnv(const void* p, size_t n, uint64_t h = 1469598103934665603ull) {
   const unsigned char* b = static_cast<const unsigned char*>(p);
   for (size_t i = 0; i < n; ++i) { h ^= b[i]; h *= 1099511628211ull; }
   return h;
}
inline uint64_t fnv(const std::string& s, uint64_t h = 1469598103934665603ull) { return fnv(s.data(), s.size(), h); }

inline double elapsed() {
   return std::chrono::duration<double>(std::chrono::steady_clock::now() - ctx().t0).count();
}

inline void init(int argc, char** argv) {
   Ctx& c = ctx();
   c.t0 = std::chrono::steady_clock::now();
   for (int i = 1; i < argc; ++i) {
      std::string a = argv[i];
      auto val = [&]() -> std::string { if (i + 1 >= argc) { fprintf(stderr, "missing value for %s\n", a.c_str()); exit(3); } return argv[++i]; };
      if (a == "--tier") c.tier = val();
      else if (a == "--shard") c.shard = strtoul(val().c_str(), nullptr, 10);
      else if (a == "--nshards") c.nshards = strtoul(val().c_str(), nullptr, 10);
      else if (a == "--from") c.from = strtoull(val().c_str(), nullptr, 10);
      else if (a == "--only") { c.only = strtoll(val().c_str(), nullptr, 10); c.verbose = true; }
      else if (a == "--replay-case") { c.replay = val(); c.have_replay = true; c.verbose = true; }
      else if (a == "--deadline") c.deadline = strtod(val().c_str(), nullptr);
      else if (a == "--seed") c.seed = strtoull(val().c_str(), nullptr, 10);
      else if (a == "--out") c.out = val();
      else if (a == "--progress") c.progress_path = val();
      else if (a == "--verbose") c.verbose = true;
      else { fprintf(stderr, "unknown option %s\n", a.c_str()); exit(3); }
   }
   if (c.nshards == 0) c.nshards = 1;
   if (!c.out.empty()) {
      c.outf = fopen(c.out.c_str(), "a");
      if (!c.outf) { perror("open --out"); exit(3); }
   } else c.outf = stdout;
   c.prog = &c.local_prog;
   if (!c.progress_path.empty()) {
      int fd = open(c.progress_path.c_str(), O_RDWR | O_CREAT, 0644);
      if (fd >= 0 && ftruncate(fd, sizeof(Progress)) == 0) {
         void* p = mmap(nullptr, sizeof(Progress), PROT_READ | PROT_WRITE, MAP_SHARED, fd, 0);
         if (p != MAP_FAILED) c.prog = static_cast<Progress*>(p);
      }
      if (fd >= 0) close(fd);
   }
   c.prog->started = 1; c.prog->done = 0;
}

inline bool thorough() { return ctx().tier == "thorough"; }
// VERIF_DEEP=1: defect hunting beyond the registered thorough bounds (not a registered tier; used with --deadline by hand)
inline bool deep() { static int d = -1; if (d < 0) { const char* e = getenv("VERIF_DEEP"); d = (e && *e && *e != '0') ? 1 : 0; } return d == 1 && thorough(); }
inline bool verbose()  { return ctx().verbose; }
inline bool replaying() { return ctx().have_replay; }
inline const std::string& replay_case() { return ctx().replay; }

// Decides whether the case with the next global index is to be executed by this worker. Call exactly once per
// enumerated case, in enumeration order. Returns false for cases of other shards / before --from / not --only.
// When the deadline has passed it returns false for everything that follows and marks the run as capped.
inline uint64_t current_case() { return ctx().next_case - 1; }
inline bool want_case() {
   Ctx& c = ctx();
   uint64_t idx = c.next_case++;
   if (c.capped) return false;
   if (c.only >= 0) return idx == uint64_t(c.only);
   if (idx < c.from) return false;
   if (idx % c.nshards != c.shard) return false;
   if ((c.cases_run & 0x3f) == 0 && elapsed() > c.deadline) { c.capped = true; return false; }
   c.prog->case_idx = idx;
   c.prog->note[0] = 0;
   ++c.cases_run;
   return true;
}
// true when enumeration can stop (only-case already passed, or capped)
inline bool stop_enumeration() {
   Ctx& c = ctx();
   if (c.capped) return true;
   if (c.only >= 0 && c.next_case > uint64_t(c.only)) return true;
   return false;
}
inline void heartbeat() { ++ctx().prog->heartbeat; }
inline void note(const std::string& s) {           // describe the sub-case that is about to run (crash attribution)
   Progress* p = ctx().prog;
   size_t n = s.size() < sizeof(p->note) - 1 ? s.size() : sizeof(p->note) - 1;
   memcpy(p->note, s.data(), n); p->note[n] = 0;
}
inline bool deadline_hit() {                       // for long inner loops
   Ctx& c = ctx();
   if (!c.capped && elapsed() > c.deadline) c.capped = true;
   return c.capped;
}

inline void count(const std::string& name, uint64_t n = 1) { ctx().counters[name] += n; }
inline void setmax(const std::string& name, uint64_t v) { uint64_t& x = ctx().counters[name]; if (v > x) x = v; }
inline void fact(const std::string& name, const std::string& v) { ctx().notes[name] = v; }
inline void outcome(const std::string& o) { Ctx& c = ctx(); if (c.outcomes.size() < 4000) c.outcomes.insert(o.size() > 160 ? o.substr(0, 160) : o); }
inline void nontrivial(uint64_t h) {
   Ctx& c = ctx();
   if (c.nontrivial.size() < (8u << 20)) c.nontrivial.insert(h); else ++c.nontrivial_overflow;
}
inline void nontrivial(const std::string& key) { nontrivial(fnv(key)); }
// for cases that are distinct by construction of the enumeration (no hashing needed)
inline void nontrivial_by_construction(uint64_t n = 1) { ctx().nontrivial_overflow += n; }
// keeps a few of the actual cases: the first ones, and later ones picked deterministically from the seed
inline void sample(const std::string& s) {
   Ctx& c = ctx();
   static uint64_t n = 0; ++n;
   if (c.samples.size() < 3) { c.samples.push_back(s); return; }
   uint64_t h = fnv(&n, sizeof n, c.seed * 0x9E3779B97F4A7C15ull + 12345);
   if (c.samples.size() < 12 && (h % 9973) == 0) c.samples.push_back(s);
}

inline void violation(const std::string& sig, const std::string& detail, const std::string& replay) {
   Ctx& c = ctx();
   if (c.verbose) { printf("  ** VIOLATION sig=%s\n     %s\n", sig.c_str(), detail.c_str()); fflush(stdout); }
   auto it = c.viols.find(sig);
   if (it == c.viols.end()) {
      if (c.viols.size() >= c.max_sigs) { count("violations_beyond_signature_cap"); return; }
      Ctx::Viol v; v.count = 1; v.case_idx = current_case(); v.detail = detail; v.replay = replay;
      c.viols.emplace(sig, v);
      // written immediately as well, so that it survives a later crash of this worker
      fprintf(c.outf, "{\"t\":\"viol\",\"sig\":\"%s\",\"detail\":\"%s\",\"replay\":\"%s\",\"case\":%llu}\n",
              jesc(sig).c_str(), jesc(detail).c_str(), jesc(replay).c_str(), (unsigned long long)v.case_idx);
      fflush(c.outf);
   } else ++it->second.count;
}
inline uint64_t violation_count(const std::string& sig) {
   auto it = ctx().viols.find(sig); return it == ctx().viols.end() ? 0 : it->second.count;
}

inline void finish() {
   Ctx& c = ctx();
   std::string s = "{\"t\":\"stats\",\"shard\":" + std::to_string(c.shard) + ",\"cases_run\":" + std::to_string(c.cases_run) +
                   ",\"cases_total\":" + std::to_string(c.next_case) + ",\"capped\":" + (c.capped ? "true" : "false") +
                   ",\"wall_s\":" + std::to_string(elapsed()) + ",\"counters\":{";
   bool first = true;
   for (auto& kv : c.counters) { s += (first ? "\"" : ",\"") + jesc(kv.first) + "\":" + std::to_string(kv.second); first = false; }
   s += "},\"facts\":{"; first = true;
   for (auto& kv : c.notes) { s += (first ? "\"" : ",\"") + jesc(kv.first) + "\":\"" + jesc(kv.second) + "\""; first = false; }
   s += "},\"nontrivial\":" + std::to_string(c.nontrivial.size() + c.nontrivial_overflow) + ",\"outcomes\":[";
   first = true;
   for (auto& o : c.outcomes) { s += (first ? "\"" : ",\"") + jesc(o) + "\""; first = false; }
   s += "],\"samples\":["; first = true;
   for (auto& o : c.samples) { s += (first ? "\"" : ",\"") + jesc(o) + "\""; first = false; }
   s += "],\"violcounts\":{"; first = true;
   for (auto& kv : c.viols) { s += (first ? "\"" : ",\"") + jesc(kv.first) + "\":" + std::to_string(kv.second.count); first = false; }
   s += "}}\n";
   fputs(s.c_str(), c.outf); fflush(c.outf);
   c.prog->done = 1;
}

// ---- odometer over a product of finite domains -------------------------------------------------
struct Odometer {
   std::vector<unsigned> radix, digit;
   bool fresh = true;
   explicit Odometer(std::vector<unsigned> r) : radix(std::move(r)), digit(radix.size(), 0) {}
   bool empty() const { for (unsigned r : radix) if (r == 0) return true; return false; }
   // advances; returns false when wrapped around (all combinations visited)
   bool next() {
      if (fresh) { fresh = false; return !empty(); }
      for (size_t i = radix.size(); i-- > 0;) {
         if (++digit[i] < radix[i]) return true;
         digit[i] = 0;
      }
      return false;
   }
   unsigned operator[](size_t i) const { return digit[i]; }
};

} // namespace vf
