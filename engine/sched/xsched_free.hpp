// Free-running variant of the xs:: harness API: the same harness bodies compiled with the REAL ThreadSanitizer (libtsan) and run
// with real, unserialised threads. This is the cross-check of the E3 race detector asked for in DESIGN.md section 2: a cooperative
// scheduler's hand-offs would be happens-before edges for libtsan, so libtsan only sees the truth when the threads run freely.
// It is a sampling pass and decides nothing on its own: any report it prints is turned into a violation by the E3 worker
// (a race that libtsan sees but the exploration did not report would be a gap of the explorer).
#pragma once
#include <cstdio>
#include <cstdlib>
#include <cstring>
#include <string>
#include <thread>
#include <unistd.h>
#include <sys/wait.h>

namespace xs {
inline void yield() { std::this_thread::yield(); }
inline void watch(const void*, size_t) {}
inline void fail(const char* sig, const char* detail) { fprintf(stderr, "XS-FAIL %s :: %s\n", sig, detail); fflush(stderr); }
inline void observe(const char*) {}
inline bool in_child() { return true; }
typedef void (*Body)();

// runs `body` `reps` times, each in a fresh process (first-use initialisations race every time), with free-running threads
inline void run_free(const char* name, Body body, int reps) {
   for (int r = 0; r < reps; ++r) {
      fflush(stdout); fflush(stderr);
      pid_t pid = fork();
      if (pid == 0) { fprintf(stderr, "XS-SCENARIO %s\n", name); body(); fflush(stderr); exit(0); }
      int st = 0; waitpid(pid, &st, 0);
      if (WIFSIGNALED(st)) fprintf(stderr, "XS-FAIL %s|crash :: free-running execution killed by signal %d\n", name, WTERMSIG(st));
   }
}
} // namespace xs
