// E3 xsched: stateless, preemption-bounded exploration of REAL threads running the REAL (ThreadSanitizer-instrumented) code.
//
// The library and the harness bodies are compiled with -fsanitize=thread, but linked against the implementation of the TSan ABI in
// xsched.cpp instead of libtsan: the compiler reports every load, store and atomic operation to this runtime.  pthread_create/join,
// pthread_mutex_*, pthread_cond_*, __cxa_guard_* and malloc/free are interposed by definitions in the executable.
//
//   * exactly one thread runs at a time; control changes hands only at SCHEDULING POINTS: every synchronisation operation and every
//     access (plain or atomic) to a WATCHED location = a location in static storage of the executable (or a range registered with
//     xs::watch) that at least two threads access, at least one of them writing
//   * every execution runs in a fresh fork()ed process (function-local statics, singletons and guards start uninitialised)
//   * a vector-clock race detector sees every instrumented access of every explored schedule with the REAL happens-before relation
//     (create/join, unlock->lock, release->acquire on the same atomic, guard release->acquire); the scheduler's hand-offs are no edges
//   * the explorer enumerates all schedules with at most `bound` preemptions (depth-first re-execution from recorded choice prefixes)
#pragma once
#include <cstdint>
#include <cstddef>
#include <string>
#include <vector>
#include <map>
#include <set>

namespace xs {

// ---- called from harness bodies (inside the child process)
void yield();                                   // inside a wait loop: "I cannot make progress until somebody else does"
void watch(const void* p, size_t n);            // treat [p,p+n) like static storage (candidate scheduling points)
void fail(const char* sig, const char* detail); // harness oracle failed for this execution
void observe(const char* text);                 // appended to the execution's observable outcome
bool in_child();

// ---- explorer (parent side)
struct Finding { std::string sig, detail; std::vector<uint8_t> schedule; };
struct Stats {
   uint64_t executions = 0, points = 0, max_points = 0, max_threads = 0, watch_locations = 0, late_watch_additions = 0, hangs = 0;
   uint64_t by_preemptions[8] = {0, 0, 0, 0, 0, 0, 0, 0};
   uint64_t executions_with_switch_between_conflicting = 0;
   uint64_t instrumented_accesses = 0, races_reported = 0, foreign_races = 0;
   std::set<std::string> outcomes; std::vector<std::string> sample_schedules;
   bool complete = true;                       // false when a cap (executions/time) stopped the search
};
struct Options {
   int bound = 2; uint64_t max_executions = 2000000; double deadline_s = 1e9; bool verbose = false;
   // sharding of the search tree: only top-level alternatives with index % nshards == shard are expanded (the root execution is
   // run by every shard, counted by shard 0)
   unsigned shard = 0, nshards = 1;
   bool (*keep_going)() = nullptr;
};
typedef void (*Body)();
// explores `body`; findings are de-duplicated by signature (first = fewest preemptions found first in DFS order)
void explore(const char* name, Body body, const Options& opt, Stats& st, std::map<std::string, Finding>& findings);
// replays one schedule (choice list) and prints what happens; returns findings of that execution
void replay(const char* name, Body body, const std::vector<uint8_t>& schedule, std::map<std::string, Finding>& findings, bool verbose);
std::string schedule_text(const std::vector<uint8_t>& s);
std::vector<uint8_t> parse_schedule(const std::string& s);

} // namespace xs
