// Worker side of the libtsan cross-check (see xsched_free.hpp): runs the free-running executable, turns every ThreadSanitizer
// report and every failed harness oracle into a violation.
#pragma once
#include "engine/common.hpp"
#include <cstdio>
#include <string>
#include <set>

namespace xs {
inline void libtsan_crosscheck(int reps) {
   const char* exe = getenv("VERIF_AUX_FREE");
   if (!exe || !*exe) { vf::fact("libtsan_cross_check", "not run (auxiliary executable missing)"); return; }
   std::string cmd = std::string("TSAN_OPTIONS='halt_on_error=0 report_thread_leaks=0 report_signal_unsafe=0 exitcode=0 second_deadlock_stack=0' ") + exe + " " + std::to_string(reps) + " 2>&1";
   FILE* f = popen(cmd.c_str(), "r"); if (!f) { vf::fact("libtsan_cross_check", "not run (popen failed)"); return; }
   char line[4000]; std::string scenario = "?"; bool in_report = false, want_frame = false, foreign = false; uint64_t foreign_reports = 0; std::vector<std::string> frames; std::string report_text; uint64_t execs = 0, reports = 0, fails = 0;
   auto flush_report = [&]() {
      if (!in_report) return; in_report = false;
      // same attribution rule as the explorer's detector: a contended location inside another shared object's data (libstdc++'s
      // ctype narrow cache under std::regex, ...) is not Celma's state - counted, not reported
      if (foreign) { ++foreign_reports; foreign = false; frames.clear(); report_text.clear(); return; }
      ++reports;
      std::string a = frames.size() > 0 ? frames[0] : "?", b = frames.size() > 1 ? frames[1] : "?"; if (b < a) std::swap(a, b);
      vf::violation("libtsan-race|" + a + "|" + b, "the free-running pass with the real ThreadSanitizer reports a data race in scenario " + scenario + ":\n" + report_text.substr(0, 1500), "scenario=" + scenario + " schedule=");
      frames.clear(); report_text.clear();
   };
   while (fgets(line, sizeof line, f)) {
      std::string l = line; while (!l.empty() && (l.back() == '\n' || l.back() == '\r')) l.pop_back();
      if (l.compare(0, 12, "XS-SCENARIO ") == 0) { flush_report(); scenario = l.substr(12); ++execs; vf::heartbeat(); continue; }
      if (l.compare(0, 8, "XS-FAIL ") == 0) { flush_report(); ++fails; size_t p = l.find(" :: "); std::string sig = l.substr(8, p == std::string::npos ? std::string::npos : p - 8);
         vf::violation("free-running|" + sig, "free-running execution (real threads, libtsan build) of scenario " + scenario + ": " + (p == std::string::npos ? "" : l.substr(p + 4)), "scenario=" + scenario + " schedule="); continue; }
      if (l.find("WARNING: ThreadSanitizer: data race") != std::string::npos) { flush_report(); in_report = true; want_frame = false; foreign = false; report_text = l + "\n"; continue; }
      if (!in_report) continue;
      if (l.find("==================") != std::string::npos && report_text.size() > 60) { flush_report(); continue; }
      if (report_text.size() < 3000) report_text += l + "\n";
      if (l.find("Location is global") != std::string::npos && l.find(".so") != std::string::npos) foreign = true;
      if (l.find(" of size ") != std::string::npos && (l.find("rite of size") != std::string::npos || l.find("ead of size") != std::string::npos)) { want_frame = true; continue; }
      if (want_frame && l.find("#") != std::string::npos) {
         // "    #0 func file:line (exe+0x..)" : take the first frame that is not inside the C++ library headers
         size_t h = l.find('#'); size_t sp = l.find(' ', h); std::string rest = sp == std::string::npos ? "" : l.substr(sp + 1);
         if (rest.find("/usr/include/") != std::string::npos || rest.find("/usr/lib/") != std::string::npos) continue;
         size_t pth = rest.find(" /"); std::string fn = rest.substr(0, pth);            // "ret-type ns::func<..>(args)" : keep up to the argument list
         size_t par = fn.find('('); if (par != std::string::npos) fn = fn.substr(0, par);
         size_t sl = pth == std::string::npos ? std::string::npos : rest.find(' ', pth + 1); std::string file = pth == std::string::npos ? "" : rest.substr(pth + 1, sl == std::string::npos ? std::string::npos : sl - pth - 1);
         size_t bs = file.rfind('/'); if (bs != std::string::npos) file = file.substr(bs + 1); size_t col = file.find(':'); if (col != std::string::npos) file = file.substr(0, col);
         fn += "@" + file;
         frames.push_back(fn); want_frame = false;
      }
   }
   flush_report(); pclose(f);
   vf::count("libtsan_free_running_executions", execs); vf::count("libtsan_race_reports", reports); vf::count("libtsan_race_reports_foreign_objects", foreign_reports); vf::count("libtsan_pass_oracle_failures", fails);
   vf::fact("libtsan_cross_check", "free-running pass with the real ThreadSanitizer: " + std::to_string(execs) + " executions, " + std::to_string(reports) + " race reports, " + std::to_string(foreign_reports) + " more on data of other shared objects (libstdc++ internals; not attributed)");
}
} // namespace xs
