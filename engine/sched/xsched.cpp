// E3 xsched runtime: TSan-ABI implementation + interposed synchronisation + cooperative scheduler + vector-clock race detector
// (child side, plain C style: no STL, no instrumented code) and the preemption-bounded explorer (parent side).
// This translation unit is compiled WITHOUT -fsanitize=thread.
#include "engine/sched/xsched.hpp"
#include <pthread.h>
#include <dlfcn.h>
#include <link.h>
#include <unistd.h>
#include <signal.h>
#include <string.h>
#include <stdio.h>
#include <stdlib.h>
#include <errno.h>
#include <time.h>
#include <sys/mman.h>
#include <sys/wait.h>
#include <sys/syscall.h>
#include <linux/futex.h>
#include <chrono>
#include <algorithm>

extern "C" char __data_start, _end;
extern "C" void* __libc_malloc(size_t); extern "C" void __libc_free(void*); extern "C" void* __libc_calloc(size_t, size_t);
extern "C" void* __libc_realloc(void*, size_t); extern "C" void* __libc_memalign(size_t, size_t);

namespace {

enum { MAXT = 6, MAXPOINTS = 60000, MAXW = 8192, MAXRACE = 48, MAXFAIL = 16, MAXRANGES = 16, OUTCOME_LEN = 4000 };
enum State { ST_UNUSED, ST_RUNNABLE, ST_BLOCKED, ST_YIELD, ST_FINISHED };
enum Kind { K_NONE, K_READ, K_WRITE, K_AREAD, K_AWRITE, K_ARMW, K_LOCK, K_UNLOCK, K_CREATE, K_JOIN, K_GUARD, K_COND, K_EXIT, K_YIELD, K_START };

struct VC { uint32_t c[MAXT]; };
struct Point { uint8_t n, chosen, cur_enabled, tid, kind, watched; };
struct Race { uintptr_t addr, pc1, pc2; uint8_t t1, t2, w1, w2, a1, a2, is_static, foreign; };
struct Fail { char sig[120]; char detail[2000]; };
struct Shared {                       // parent <-> child
   // input
   int n_prefix; uint8_t prefix[MAXPOINTS]; uint8_t prefix_n[MAXPOINTS], prefix_tid[MAXPOINTS];
   int n_watch; uintptr_t watch[MAXW];
   int verbose; int lenient;          // lenient: choices beyond the enabled set are clamped (learning runs), otherwise divergence
   // output
   int n_points; Point pts[MAXPOINTS]; int overflow_points;
   int n_race; Race races[MAXRACE]; uint64_t total_races, foreign_races;
   int n_fail; Fail fails[MAXFAIL];
   int n_newwatch; uintptr_t newwatch[256];
   char outcome[OUTCOME_LEN]; int outcome_len;
   int done, deadlock, divergence; char note[300];
   uint64_t accesses, stack_accesses_skipped; int nthreads; int switches_at_watched;
};
Shared* sh = nullptr;

// ------------------------------------------------------------------------------------------ child state
volatile int g_active = 0;            // 1 inside a child while the scenario runs
struct Thr { int state; int futex; pthread_t handle; VC vc; const void* wait_obj; int wait_kind; uint64_t yield_epoch; void* (*fn)(void*); void* arg; void* ret; uintptr_t stack_lo, stack_hi; };
Thr thr[MAXT]; int nthr = 0; int cur = 0; uint64_t g_progress = 0;
__thread int my_tid = -1; __thread int in_rt = 0;
int npoint_idx = 0;                   // index into prefix (counts recorded points)

struct RangeReg { uintptr_t lo, hi; } ranges[MAXRANGES]; int nranges = 0;
uintptr_t st_lo, st_hi; uint8_t* st_track = nullptr;       // per static granule: accessor mask (bits 0..6) | written (bit 7)
struct DsoRange { uintptr_t lo, hi; } dsos[64]; int ndso = 0;

// shadow memory: one entry per 8-byte word with byte masks (a conflict needs overlapping bytes). Consecutive words map to
// consecutive entries (blocks of 64 words) so that a child touches few shadow pages.
struct Shadow { uintptr_t key; uint32_t wclk; uint32_t wpc, rpc; uint32_t rclk[MAXT]; uint8_t rmask[MAXT]; uint8_t wtid, watomic, wmask, ratomic_mask, used; };
enum { SHBITS = 21, SHSIZE = 1 << SHBITS, SHBLOCK = 64 };
Shadow* shadow = nullptr;
struct Sync { const void* addr; VC vc; int owner; int used; int waiting_cond; };
enum { SYBITS = 12, SYSIZE = 1 << SYBITS };
Sync* syncs = nullptr;

long futex(int* addr, int op, int val) { return syscall(SYS_futex, addr, op, val, nullptr, nullptr, 0); }
void die(const char* msg) { if (sh) { snprintf(sh->note, sizeof sh->note, "%s", msg); sh->done = 2; } fprintf(stderr, "xsched: %s\n", msg); _exit(70); }

inline size_t shadow_home(uintptr_t w) { uintptr_t blk = w / SHBLOCK; uintptr_t h = (blk * 0x9E3779B97F4A7C15ull) >> (64 - (SHBITS - 6)); return (size_t)(h * SHBLOCK + (w % SHBLOCK)); }
Shadow* shadow_of(uintptr_t a) {            // a = address of any byte of the word
   uintptr_t w = a >> 3; size_t h = shadow_home(w);
   for (int probe = 0; probe < SHSIZE; probe += SHBLOCK) { Shadow* s = &shadow[(h + probe) & (SHSIZE - 1)]; if (!s->used) { s->used = 1; s->key = w; s->wtid = 0xff; return s; } if (s->key == w) return s; }
   die("shadow table full"); return nullptr;
}
Shadow* shadow_find(uintptr_t a) {
   uintptr_t w = a >> 3; size_t h = shadow_home(w);
   for (int probe = 0; probe < SHSIZE; probe += SHBLOCK) { Shadow* s = &shadow[(h + probe) & (SHSIZE - 1)]; if (!s->used) return nullptr; if (s->key == w) return s; }
   return nullptr;
}
Sync* sync_of(const void* a) {
   uintptr_t h = ((uintptr_t)a * 0x9E3779B97F4A7C15ull) >> (64 - SYBITS);
   for (int probe = 0; probe < SYSIZE; ++probe) { Sync* s = &syncs[(h + probe) & (SYSIZE - 1)]; if (!s->used) { s->used = 1; s->addr = a; s->owner = -1; return s; } if (s->addr == a) return s; }
   die("sync table full"); return nullptr;
}
void vc_join(VC& a, const VC& b) { for (int i = 0; i < MAXT; ++i) if (b.c[i] > a.c[i]) a.c[i] = b.c[i]; }

bool is_static(uintptr_t a) { return a >= st_lo && a < st_hi; }
bool in_ranges(uintptr_t a) { for (int i = 0; i < nranges; ++i) if (a >= ranges[i].lo && a < ranges[i].hi) return true; return false; }
bool is_foreign(uintptr_t a) { for (int i = 0; i < ndso; ++i) if (a >= dsos[i].lo && a < dsos[i].hi) return true; return false; }
bool is_watched(uintptr_t a) {        // binary search in the sorted watch list (granule = 8 bytes)
   uintptr_t g = a & ~uintptr_t(7); int lo = 0, hi = sh->n_watch - 1;
   while (lo <= hi) { int m = (lo + hi) / 2; if (sh->watch[m] == g) return true; if (sh->watch[m] < g) lo = m + 1; else hi = m - 1; }
   return false;
}
uint8_t range_track[MAXRANGES][4096];
void track(uintptr_t a, bool write) {
   uint8_t* t = nullptr;
   if (is_static(a)) t = &st_track[(a - st_lo) >> 3];
   else for (int i = 0; i < nranges; ++i) if (a >= ranges[i].lo && a < ranges[i].hi) { size_t k = (a - ranges[i].lo) >> 3; if (k < 4096) t = &range_track[i][k]; break; }
   if (!t) return;
   uint8_t before = *t; *t |= uint8_t(1u << my_tid) | (write ? 0x80 : 0);
   if (*t != before) { uint8_t m = *t & 0x7f; if ((*t & 0x80) && (m & (m - 1)) && !is_watched(a) && sh->n_newwatch < 256) { uintptr_t g = a & ~uintptr_t(7); bool have = false; for (int i = 0; i < sh->n_newwatch; ++i) have = have || sh->newwatch[i] == g; if (!have) sh->newwatch[sh->n_newwatch++] = g; } }
}

// ------------------------------------------------------------------------------------------ scheduler
bool enabled(int t) {
   Thr& x = thr[t];
   if (x.state == ST_RUNNABLE) return true;
   if (x.state == ST_YIELD) return g_progress > x.yield_epoch;
   if (x.state == ST_BLOCKED) {
      switch (x.wait_kind) {
      case K_LOCK: case K_GUARD: { Sync* s = sync_of(x.wait_obj); return s->owner < 0; }
      case K_JOIN: return thr[(int)(intptr_t)x.wait_obj].state == ST_FINISHED;
      case K_EXIT: { for (int i = 1; i < nthr; ++i) if (thr[i].state != ST_FINISHED) return false; return true; }
      case K_COND: return false;      // re-enabled explicitly by signal/broadcast (state -> RUNNABLE)
      }
   }
   return false;
}
void handoff(int next) {
   int me = my_tid;
   if (next == me) return;
   cur = next;
   __atomic_store_n(&thr[next].futex, 1, __ATOMIC_SEQ_CST); futex(&thr[next].futex, FUTEX_WAKE, 1);
   if (thr[me].state == ST_FINISHED) return;
   while (!__atomic_load_n(&thr[me].futex, __ATOMIC_SEQ_CST)) futex(&thr[me].futex, FUTEX_WAIT, 0);
   __atomic_store_n(&thr[me].futex, 0, __ATOMIC_SEQ_CST);
}
void finish_child();
// the running thread reaches a scheduling point. `me_enabled`: may the running thread itself continue?
void sched_point(int kind, bool watched) {
   int me = my_tid; int list[MAXT]; int n = 0;
   bool me_en = enabled(me);
   if (me_en) list[n++] = me;
   for (int t = 0; t < nthr; ++t) if (t != me && thr[t].state != ST_UNUSED && thr[t].state != ST_FINISHED && enabled(t)) list[n++] = t;
   if (n == 0) {
      bool all_done = true; for (int t = 0; t < nthr; ++t) if (thr[t].state != ST_FINISHED) all_done = false;
      if (all_done) return;
      sh->deadlock = 1; char b[280]; int o = snprintf(b, sizeof b, "no thread can run:");
      for (int t = 0; t < nthr; ++t) o += snprintf(b + o, sizeof b - o, " T%d=%s", t, thr[t].state == ST_FINISHED ? "finished" : thr[t].state == ST_YIELD ? "waiting-in-loop" : thr[t].state == ST_BLOCKED ? (thr[t].wait_kind == K_LOCK ? "blocked-on-mutex" : thr[t].wait_kind == K_JOIN ? "blocked-in-join" : thr[t].wait_kind == K_GUARD ? "blocked-on-static-init" : thr[t].wait_kind == K_COND ? "blocked-on-condvar" : "blocked") : "?");
      snprintf(sh->note, sizeof sh->note, "%s", b);
      finish_child();
   }
   int choice = 0;
   if (n >= 2) {
      int idx = npoint_idx++;
      if (idx < sh->n_prefix) {
         choice = sh->prefix[idx];
         if (sh->lenient && choice >= n) choice = n - 1;
         if (choice >= n || (sh->prefix_n[idx] && (sh->prefix_n[idx] != n || sh->prefix_tid[idx] != me))) { sh->divergence = 1; snprintf(sh->note, sizeof sh->note, "replay diverged at point %d: expected thread %d with %d enabled, got thread %d with %d enabled", idx, sh->prefix_tid[idx], sh->prefix_n[idx], me, n); finish_child(); }
      }
      if (idx < MAXPOINTS) { Point& p = sh->pts[idx]; p.n = uint8_t(n); p.chosen = uint8_t(choice); p.cur_enabled = me_en; p.tid = uint8_t(me); p.kind = uint8_t(kind); p.watched = watched; sh->n_points = idx + 1; }
      else sh->overflow_points = 1;
      if (choice != 0 && watched) ++sh->switches_at_watched;
   }
   int next = list[choice];
   if (thr[next].state == ST_YIELD || thr[next].state == ST_BLOCKED) { if (thr[next].wait_kind != K_COND) thr[next].state = ST_RUNNABLE; }
   if (sh->verbose && next != me) fprintf(stderr, "    [switch T%d -> T%d at %s point %d]\n", me, next, kind == K_LOCK ? "lock" : kind == K_UNLOCK ? "unlock" : kind == K_READ ? "read" : kind == K_WRITE ? "write" : kind == K_CREATE ? "create" : kind == K_JOIN ? "join" : kind == K_GUARD ? "static-init" : kind == K_EXIT ? "exit" : kind == K_YIELD ? "yield" : "atomic", npoint_idx - 1);
   handoff(next);
}
void block_on(int kind, const void* obj) {       // the running thread cannot continue until `obj` allows it
   Thr& me = thr[my_tid]; me.state = ST_BLOCKED; me.wait_kind = kind; me.wait_obj = obj;
   sched_point(kind, false);
   me.state = ST_RUNNABLE;
}

// ------------------------------------------------------------------------------------------ race detector
void report_race(uintptr_t a, Shadow* s, bool write, bool atomic, uintptr_t pc, int other, bool other_write, bool other_atomic, uintptr_t other_pc) {
   bool foreign = is_foreign(a);
   ++sh->total_races; if (foreign) ++sh->foreign_races;
   for (int i = 0; i < sh->n_race; ++i) { Race& r = sh->races[i]; if ((r.pc1 == other_pc && r.pc2 == pc) || (r.pc1 == pc && r.pc2 == other_pc)) return; }
   if (sh->n_race >= MAXRACE) return;
   Race& r = sh->races[sh->n_race++]; r.addr = a; r.pc1 = other_pc; r.pc2 = pc; r.t1 = uint8_t(other); r.t2 = uint8_t(my_tid); r.w1 = other_write; r.w2 = write; r.a1 = other_atomic; r.a2 = atomic; r.is_static = is_static(a); r.foreign = foreign;
}
void access_word(uintptr_t a, uint8_t mask, bool write, bool atomic, uintptr_t pc) {
   int me = my_tid; VC& vc = thr[me].vc;
   Shadow* s = shadow_of(a);
   if (s->wtid != 0xff && s->wtid != me && (s->wmask & mask) && s->wclk > vc.c[s->wtid] && !(atomic && s->watomic)) report_race(a, s, write, atomic, pc, s->wtid, true, s->watomic, s->wpc);
   if (write) {
      for (int t = 0; t < MAXT; ++t) if (t != me && (s->rmask[t] & mask) && s->rclk[t] > vc.c[t] && !(atomic && (s->ratomic_mask & (1u << t)))) { report_race(a, s, write, atomic, pc, t, false, (s->ratomic_mask >> t) & 1, s->rpc); break; }
      if (s->wtid == me && s->wclk == vc.c[me] && s->watomic == atomic) s->wmask |= mask; else s->wmask = mask;
      s->wtid = uint8_t(me); s->wclk = vc.c[me]; s->watomic = atomic; s->wpc = (uint32_t)pc;
      for (int t = 0; t < MAXT; ++t) if (s->rmask[t] & mask) { s->rmask[t] &= uint8_t(~mask); if (!s->rmask[t]) s->rclk[t] = 0; }
   } else {
      if (s->rclk[me] == vc.c[me]) s->rmask[me] |= mask; else s->rmask[me] = mask;
      s->rclk[me] = vc.c[me]; s->rpc = (uint32_t)pc; if (atomic) s->ratomic_mask |= uint8_t(1u << me); else s->ratomic_mask &= uint8_t(~(1u << me));
   }
}
void access(uintptr_t a, size_t n, bool write, bool atomic, uintptr_t pc) {
   ++sh->accesses;
   uintptr_t end = a + n;
   while (a < end) { uintptr_t wbase = a & ~uintptr_t(7); unsigned lo = unsigned(a - wbase), hi = unsigned((end < wbase + 8 ? end : wbase + 8) - wbase); uint8_t mask = uint8_t(((1u << hi) - 1) & ~((1u << lo) - 1)); access_word(wbase, mask, write, atomic, pc); a = wbase + 8; }
}
void shadow_clear(uintptr_t a, size_t n) {
   if (!g_active || n > (1u << 22)) return;
   uintptr_t end = a + n;
   for (uintptr_t w = a & ~uintptr_t(7); w < end; w += 8) { Shadow* s = shadow_find(w); if (s) { s->wtid = 0xff; s->wclk = 0; s->watomic = 0; s->wmask = 0; s->ratomic_mask = 0; for (int t = 0; t < MAXT; ++t) { s->rclk[t] = 0; s->rmask[t] = 0; } } }
}

inline bool live() { return g_active && my_tid >= 0 && !in_rt; }
void mem_access(const void* p, size_t n, bool write, uintptr_t pc) {
   if (!live()) return;
   uintptr_t a = (uintptr_t)p;
   // the running thread's own stack: thread-private unless a pointer to it is handed to another thread, which no harness body does
   if (a >= thr[my_tid].stack_lo && a < thr[my_tid].stack_hi) { ++sh->stack_accesses_skipped; return; }
   ++in_rt;
   if (is_static(a) || (nranges && in_ranges(a))) {
      track(a, write);
      if (is_watched(a)) { sched_point(write ? K_WRITE : K_READ, true); if (write) ++g_progress; }
   }
   access(a, n, write, false, pc);
   --in_rt;
}
// atomic operation: scheduling point (if watched), happens-before bookkeeping, shadow update. returns nothing; the caller does the operation
void atomic_pre(const volatile void* p, size_t n, int kind, int mo, uintptr_t pc) {
   if (!live()) return;
   ++in_rt;
   uintptr_t a = (uintptr_t)p; int me = my_tid;
   bool w = kind != K_AREAD;
   if (is_static(a) || (nranges && in_ranges(a))) { track(a, w); if (is_watched(a)) sched_point(kind, true); }
   Sync* s = sync_of((const void*)a);
   if (kind != K_AWRITE && mo != __ATOMIC_RELAXED) vc_join(thr[me].vc, s->vc);                 // acquire side (load / rmw)
   if (kind == K_AWRITE) { if (mo == __ATOMIC_RELAXED) memset(&s->vc, 0, sizeof s->vc); else s->vc = thr[me].vc; }
   else if (kind == K_ARMW && mo != __ATOMIC_RELAXED && mo != __ATOMIC_ACQUIRE && mo != __ATOMIC_CONSUME) vc_join(s->vc, thr[me].vc);
   if (kind != K_AREAD) ++g_progress;
   if (kind == K_ARMW) access(a, n, false, true, pc);
   access(a, n, w, true, pc);
   if (w) ++thr[me].vc.c[me];
   --in_rt;
}

// ------------------------------------------------------------------------------------------ child life cycle
void set_stack_bounds(Thr& t);
void finish_child() {
   sh->nthreads = nthr; sh->done = 1;
   _exit(0);
}
int dso_cb(struct dl_phdr_info* info, size_t, void*) {
   if (!info->dlpi_name || !info->dlpi_name[0]) return 0;      // main executable
   for (int i = 0; i < info->dlpi_phnum && ndso < 64; ++i) if (info->dlpi_phdr[i].p_type == PT_LOAD && (info->dlpi_phdr[i].p_flags & PF_W)) { dsos[ndso].lo = info->dlpi_addr + info->dlpi_phdr[i].p_vaddr; dsos[ndso].hi = dsos[ndso].lo + info->dlpi_phdr[i].p_memsz; ++ndso; }
   return 0;
}
void child_setup() {
   st_lo = (uintptr_t)&__data_start; st_hi = (uintptr_t)&_end;
   st_track = (uint8_t*)mmap(nullptr, ((st_hi - st_lo) >> 3) + 16, PROT_READ | PROT_WRITE, MAP_PRIVATE | MAP_ANONYMOUS, -1, 0);
   shadow = (Shadow*)mmap(nullptr, sizeof(Shadow) * SHSIZE, PROT_READ | PROT_WRITE, MAP_PRIVATE | MAP_ANONYMOUS | MAP_NORESERVE, -1, 0);
   syncs = (Sync*)mmap(nullptr, sizeof(Sync) * SYSIZE, PROT_READ | PROT_WRITE, MAP_PRIVATE | MAP_ANONYMOUS | MAP_NORESERVE, -1, 0);
   if (st_track == MAP_FAILED || shadow == MAP_FAILED || syncs == MAP_FAILED) die("mmap failed");
   dl_iterate_phdr(dso_cb, nullptr);
   memset(thr, 0, sizeof thr); nthr = 1; cur = 0; my_tid = 0; thr[0].state = ST_RUNNABLE; thr[0].vc.c[0] = 1; thr[0].handle = pthread_self();
   npoint_idx = 0; g_progress = 1; nranges = 0;
   set_stack_bounds(thr[0]);
}
struct Start { int tid; };
void set_stack_bounds(Thr& t) {
   pthread_attr_t at; void* lo = nullptr; size_t sz = 0;
   if (pthread_getattr_np(pthread_self(), &at) == 0) { if (pthread_attr_getstack(&at, &lo, &sz) == 0) { t.stack_lo = (uintptr_t)lo; t.stack_hi = (uintptr_t)lo + sz; } pthread_attr_destroy(&at); }
}
void* trampoline(void* p) {
   int tid = (int)(intptr_t)p; my_tid = tid; Thr& me = thr[tid];
   ++in_rt; set_stack_bounds(me); --in_rt;
   while (!__atomic_load_n(&me.futex, __ATOMIC_SEQ_CST)) futex(&me.futex, FUTEX_WAIT, 0);
   __atomic_store_n(&me.futex, 0, __ATOMIC_SEQ_CST);
   void* r = me.fn(me.arg);
   ++in_rt;
   me.ret = r; me.state = ST_FINISHED; ++g_progress; ++me.vc.c[tid];
   sched_point(K_EXIT, false);        // hands control to somebody else; never returns control to this thread
   --in_rt;
   return r;
}

} // namespace

// ============================================================================================ TSan ABI
#define PC ((uintptr_t)__builtin_return_address(0))
extern "C" {
void __tsan_init() {}
void __tsan_func_entry(void*) {}
void __tsan_func_exit() {}
void __tsan_read1(void* a) { mem_access(a, 1, false, PC); }
void __tsan_read2(void* a) { mem_access(a, 2, false, PC); }
void __tsan_read4(void* a) { mem_access(a, 4, false, PC); }
void __tsan_read8(void* a) { mem_access(a, 8, false, PC); }
void __tsan_read16(void* a) { mem_access(a, 16, false, PC); }
void __tsan_write1(void* a) { mem_access(a, 1, true, PC); }
void __tsan_write2(void* a) { mem_access(a, 2, true, PC); }
void __tsan_write4(void* a) { mem_access(a, 4, true, PC); }
void __tsan_write8(void* a) { mem_access(a, 8, true, PC); }
void __tsan_write16(void* a) { mem_access(a, 16, true, PC); }
void __tsan_unaligned_read2(void* a) { mem_access(a, 2, false, PC); }
void __tsan_unaligned_read4(void* a) { mem_access(a, 4, false, PC); }
void __tsan_unaligned_read8(void* a) { mem_access(a, 8, false, PC); }
void __tsan_unaligned_read16(void* a) { mem_access(a, 16, false, PC); }
void __tsan_unaligned_write2(void* a) { mem_access(a, 2, true, PC); }
void __tsan_unaligned_write4(void* a) { mem_access(a, 4, true, PC); }
void __tsan_unaligned_write8(void* a) { mem_access(a, 8, true, PC); }
void __tsan_unaligned_write16(void* a) { mem_access(a, 16, true, PC); }
void __tsan_read_range(void* a, unsigned long n) { if (n) mem_access(a, n > 65536 ? 65536 : n, false, PC); }
void __tsan_write_range(void* a, unsigned long n) { if (n) mem_access(a, n > 65536 ? 65536 : n, true, PC); }
void __tsan_vptr_update(void** vp, void* nv) { if (*vp != nv) mem_access(vp, 8, true, PC); }
void __tsan_vptr_read(void** vp) { mem_access(vp, 8, false, PC); }
void __tsan_read1_pc(void* a, void* pc) { mem_access(a, 1, false, (uintptr_t)pc); }
void __tsan_atomic_thread_fence(int) {}
void __tsan_atomic_signal_fence(int) {}

#define DEF_ATOMICS(N, T) \
T __tsan_atomic##N##_load(const volatile T* a, int mo) { atomic_pre(a, sizeof(T), K_AREAD, mo, PC); return __atomic_load_n(a, __ATOMIC_SEQ_CST); } \
void __tsan_atomic##N##_store(volatile T* a, T v, int mo) { atomic_pre(a, sizeof(T), K_AWRITE, mo, PC); __atomic_store_n(a, v, __ATOMIC_SEQ_CST); } \
T __tsan_atomic##N##_exchange(volatile T* a, T v, int mo) { atomic_pre(a, sizeof(T), K_ARMW, mo, PC); return __atomic_exchange_n(a, v, __ATOMIC_SEQ_CST); } \
T __tsan_atomic##N##_fetch_add(volatile T* a, T v, int mo) { atomic_pre(a, sizeof(T), K_ARMW, mo, PC); return __atomic_fetch_add(a, v, __ATOMIC_SEQ_CST); } \
T __tsan_atomic##N##_fetch_sub(volatile T* a, T v, int mo) { atomic_pre(a, sizeof(T), K_ARMW, mo, PC); return __atomic_fetch_sub(a, v, __ATOMIC_SEQ_CST); } \
T __tsan_atomic##N##_fetch_and(volatile T* a, T v, int mo) { atomic_pre(a, sizeof(T), K_ARMW, mo, PC); return __atomic_fetch_and(a, v, __ATOMIC_SEQ_CST); } \
T __tsan_atomic##N##_fetch_or(volatile T* a, T v, int mo) { atomic_pre(a, sizeof(T), K_ARMW, mo, PC); return __atomic_fetch_or(a, v, __ATOMIC_SEQ_CST); } \
T __tsan_atomic##N##_fetch_xor(volatile T* a, T v, int mo) { atomic_pre(a, sizeof(T), K_ARMW, mo, PC); return __atomic_fetch_xor(a, v, __ATOMIC_SEQ_CST); } \
T __tsan_atomic##N##_fetch_nand(volatile T* a, T v, int mo) { atomic_pre(a, sizeof(T), K_ARMW, mo, PC); return __atomic_fetch_nand(a, v, __ATOMIC_SEQ_CST); } \
int __tsan_atomic##N##_compare_exchange_strong(volatile T* a, T* c, T v, int mo, int) { atomic_pre(a, sizeof(T), K_ARMW, mo, PC); return __atomic_compare_exchange_n(a, c, v, 0, __ATOMIC_SEQ_CST, __ATOMIC_SEQ_CST); } \
int __tsan_atomic##N##_compare_exchange_weak(volatile T* a, T* c, T v, int mo, int) { atomic_pre(a, sizeof(T), K_ARMW, mo, PC); return __atomic_compare_exchange_n(a, c, v, 0, __ATOMIC_SEQ_CST, __ATOMIC_SEQ_CST); } \
T __tsan_atomic##N##_compare_exchange_val(volatile T* a, T c, T v, int mo, int) { atomic_pre(a, sizeof(T), K_ARMW, mo, PC); __atomic_compare_exchange_n(a, &c, v, 0, __ATOMIC_SEQ_CST, __ATOMIC_SEQ_CST); return c; }
DEF_ATOMICS(8, uint8_t)
DEF_ATOMICS(16, uint16_t)
DEF_ATOMICS(32, uint32_t)
DEF_ATOMICS(64, uint64_t)

// ============================================================================================ interposition
static int (*real_create)(pthread_t*, const pthread_attr_t*, void* (*)(void*), void*);
static int (*real_join)(pthread_t, void**);
static int (*real_lock)(pthread_mutex_t*); static int (*real_unlock)(pthread_mutex_t*); static int (*real_trylock)(pthread_mutex_t*);
static int (*real_cwait)(pthread_cond_t*, pthread_mutex_t*); static int (*real_csignal)(pthread_cond_t*); static int (*real_cbroadcast)(pthread_cond_t*);
static int (*real_detach)(pthread_t);
static void resolve() {
   if (real_create) return;
   real_create = (decltype(real_create))dlsym(RTLD_NEXT, "pthread_create"); real_join = (decltype(real_join))dlsym(RTLD_NEXT, "pthread_join");
   real_lock = (decltype(real_lock))dlsym(RTLD_NEXT, "pthread_mutex_lock"); real_unlock = (decltype(real_unlock))dlsym(RTLD_NEXT, "pthread_mutex_unlock");
   real_trylock = (decltype(real_trylock))dlsym(RTLD_NEXT, "pthread_mutex_trylock"); real_cwait = (decltype(real_cwait))dlsym(RTLD_NEXT, "pthread_cond_wait");
   real_csignal = (decltype(real_csignal))dlsym(RTLD_NEXT, "pthread_cond_signal"); real_cbroadcast = (decltype(real_cbroadcast))dlsym(RTLD_NEXT, "pthread_cond_broadcast");
   real_detach = (decltype(real_detach))dlsym(RTLD_NEXT, "pthread_detach");
}
static int tid_of(pthread_t h) { for (int t = 0; t < nthr; ++t) if (thr[t].state != ST_UNUSED && pthread_equal(thr[t].handle, h)) return t; return -1; }

int pthread_create(pthread_t* h, const pthread_attr_t* attr, void* (*fn)(void*), void* arg) {
   resolve();
   if (!g_active || my_tid < 0) return real_create(h, attr, fn, arg);
   ++in_rt;
   if (nthr >= MAXT) die("too many threads");
   int t = nthr++; Thr& n = thr[t]; memset(&n, 0, sizeof n); n.fn = fn; n.arg = arg; n.state = ST_RUNNABLE;
   n.vc = thr[my_tid].vc; n.vc.c[t] = 1; ++thr[my_tid].vc.c[my_tid];
   int rc = real_create(&n.handle, attr, trampoline, (void*)(intptr_t)t);
   if (rc != 0) die("pthread_create failed");
   *h = n.handle; ++g_progress;
   sched_point(K_CREATE, false);
   --in_rt;
   return 0;
}
int pthread_join(pthread_t h, void** ret) {
   resolve();
   if (!g_active || my_tid < 0) return real_join(h, ret);
   ++in_rt;
   int t = tid_of(h); if (t < 0) die("join of unknown thread");
   sched_point(K_JOIN, false);
   if (thr[t].state != ST_FINISHED) block_on(K_JOIN, (const void*)(intptr_t)t);
   vc_join(thr[my_tid].vc, thr[t].vc);
   if (ret) *ret = thr[t].ret;
   --in_rt;
   return 0;          // the real thread is left to exit on its own (it never touches shared state again)
}
int pthread_detach(pthread_t h) { resolve(); if (!g_active || my_tid < 0) return real_detach(h); return 0; }
int pthread_mutex_lock(pthread_mutex_t* m) {
   resolve();
   if (!live()) return (g_active && my_tid >= 0) ? 0 : real_lock(m);
   ++in_rt;
   sched_point(K_LOCK, false);
   Sync* s = sync_of(m);
   while (s->owner >= 0) { if (s->owner == my_tid) die("recursive lock of a non-recursive mutex (or unsupported recursive mutex)"); block_on(K_LOCK, m); }
   s->owner = my_tid; vc_join(thr[my_tid].vc, s->vc);
   --in_rt;
   return 0;
}
int pthread_mutex_trylock(pthread_mutex_t* m) {
   resolve();
   if (!live()) return (g_active && my_tid >= 0) ? 0 : real_trylock(m);
   ++in_rt;
   sched_point(K_LOCK, false);
   Sync* s = sync_of(m); int rc = EBUSY;
   if (s->owner < 0) { s->owner = my_tid; vc_join(thr[my_tid].vc, s->vc); rc = 0; }
   --in_rt;
   return rc;
}
int pthread_mutex_unlock(pthread_mutex_t* m) {
   resolve();
   if (!live()) return (g_active && my_tid >= 0) ? 0 : real_unlock(m);
   ++in_rt;
   Sync* s = sync_of(m);
   if (s->owner == my_tid) { s->owner = -1; s->vc = thr[my_tid].vc; ++thr[my_tid].vc.c[my_tid]; ++g_progress; }
   sched_point(K_UNLOCK, false);
   --in_rt;
   return 0;
}
int pthread_cond_wait(pthread_cond_t* c, pthread_mutex_t* m) {
   resolve();
   if (!live()) return (g_active && my_tid >= 0) ? 0 : real_cwait(c, m);
   ++in_rt;
   Sync* sm = sync_of(m); if (sm->owner == my_tid) { sm->owner = -1; sm->vc = thr[my_tid].vc; ++thr[my_tid].vc.c[my_tid]; ++g_progress; }
   block_on(K_COND, c);
   Sync* sc = sync_of(c); vc_join(thr[my_tid].vc, sc->vc);
   while (sm->owner >= 0) block_on(K_LOCK, m);
   sm->owner = my_tid; vc_join(thr[my_tid].vc, sm->vc);
   --in_rt;
   return 0;
}
static int cond_wake(pthread_cond_t* c, bool all) {
   ++in_rt;
   Sync* sc = sync_of(c); vc_join(sc->vc, thr[my_tid].vc); ++thr[my_tid].vc.c[my_tid]; ++g_progress;
   for (int t = 0; t < nthr; ++t) if (thr[t].state == ST_BLOCKED && thr[t].wait_kind == K_COND && thr[t].wait_obj == c) { thr[t].state = ST_RUNNABLE; thr[t].wait_kind = K_NONE; if (!all) break; }
   sched_point(K_COND, false);
   --in_rt;
   return 0;
}
int pthread_cond_signal(pthread_cond_t* c) { resolve(); if (!live()) return (g_active && my_tid >= 0) ? 0 : real_csignal(c); return cond_wake(c, false); }
int pthread_cond_broadcast(pthread_cond_t* c) { resolve(); if (!live()) return (g_active && my_tid >= 0) ? 0 : real_cbroadcast(c); return cond_wake(c, true); }

// function-local statics: guard byte 0 = initialised. Managed like a mutex that stays "released & done" after the first release.
int __cxa_guard_acquire(uint64_t* g) {
   if (!g_active || my_tid < 0) {          // single-threaded phases (parent, child before the scenario): trivial protocol
      if (*(volatile uint8_t*)g) return 0; return 1;
   }
   ++in_rt;
   sched_point(K_GUARD, false);
   Sync* s = sync_of(g);
   while (!*(volatile uint8_t*)g && s->owner >= 0) { if (s->owner == my_tid) die("recursive initialisation of a function-local static"); block_on(K_GUARD, g); }
   int rc = 0;
   if (*(volatile uint8_t*)g) vc_join(thr[my_tid].vc, s->vc); else { s->owner = my_tid; rc = 1; }
   --in_rt;
   return rc;
}
void __cxa_guard_release(uint64_t* g) {
   *(volatile uint8_t*)g = 1;
   if (!g_active || my_tid < 0) return;
   ++in_rt;
   Sync* s = sync_of(g); s->owner = -1; s->vc = thr[my_tid].vc; ++thr[my_tid].vc.c[my_tid]; ++g_progress;
   sched_point(K_GUARD, false);
   --in_rt;
}
void __cxa_guard_abort(uint64_t* g) {
   if (!g_active || my_tid < 0) return;
   ++in_rt; Sync* s = sync_of(g); s->owner = -1; ++g_progress; --in_rt;
}

// allocation: memory handed out again must not carry the shadow of its previous life
void* malloc(size_t n) { void* p = __libc_malloc(n); if (p && g_active && my_tid >= 0 && !in_rt) { ++in_rt; shadow_clear((uintptr_t)p, n); --in_rt; } return p; }
void* calloc(size_t a, size_t b) { void* p = __libc_calloc(a, b); if (p && g_active && my_tid >= 0 && !in_rt) { ++in_rt; shadow_clear((uintptr_t)p, a * b); --in_rt; } return p; }
void* realloc(void* q, size_t n) { void* p = __libc_realloc(q, n); if (p && g_active && my_tid >= 0 && !in_rt) { ++in_rt; shadow_clear((uintptr_t)p, n); --in_rt; } return p; }
void* memalign(size_t al, size_t n) { void* p = __libc_memalign(al, n); if (p && g_active && my_tid >= 0 && !in_rt) { ++in_rt; shadow_clear((uintptr_t)p, n); --in_rt; } return p; }
void* aligned_alloc(size_t al, size_t n) { return memalign(al, n); }
int posix_memalign(void** out, size_t al, size_t n) { void* p = memalign(al, n); if (!p) return ENOMEM; *out = p; return 0; }
void free(void* p) { __libc_free(p); }
} // extern "C"

// ============================================================================================ harness API (child side)
namespace xs {
bool in_child() { return g_active != 0; }
void yield() {
   if (!g_active || my_tid < 0) return;
   ++in_rt;
   Thr& me = thr[my_tid]; me.state = ST_YIELD; me.yield_epoch = g_progress;
   sched_point(K_YIELD, false);
   me.state = ST_RUNNABLE;
   --in_rt;
}
void watch(const void* p, size_t n) { if (!g_active) return; if (nranges < MAXRANGES) { ranges[nranges].lo = (uintptr_t)p; ranges[nranges].hi = (uintptr_t)p + n; memset(range_track[nranges], 0, sizeof range_track[nranges]); ++nranges; } }
void fail(const char* sig, const char* detail) {
   if (!g_active) return; ++in_rt;
   if (sh->n_fail < MAXFAIL) { Fail& f = sh->fails[sh->n_fail++]; snprintf(f.sig, sizeof f.sig, "%s", sig); snprintf(f.detail, sizeof f.detail, "%s", detail); }
   --in_rt;
}
void observe(const char* text) {
   if (!g_active) return; ++in_rt;
   int n = (int)strlen(text); if (sh->outcome_len + n + 2 < OUTCOME_LEN) { memcpy(sh->outcome + sh->outcome_len, text, n); sh->outcome_len += n; sh->outcome[sh->outcome_len++] = ';'; sh->outcome[sh->outcome_len] = 0; }
   --in_rt;
}

// ============================================================================================ explorer (parent side)
namespace {
struct Exec { std::vector<Point> pts; bool ok = false; };
std::string symbolize(uintptr_t pc) {
   static std::map<uintptr_t, std::string> cache; auto it = cache.find(pc); if (it != cache.end()) return it->second;
   char exe[512]; ssize_t n = readlink("/proc/self/exe", exe, sizeof exe - 1); std::string res;
   if (n > 0) { exe[n] = 0; char cmd[800]; snprintf(cmd, sizeof cmd, "addr2line -f -C -i -e %s 0x%lx 2>/dev/null", exe, (unsigned long)(pc - 1));
      FILE* f = popen(cmd, "r"); if (f) { char fn[600] = "", loc[600] = ""; std::string first_fn, first_loc, best_fn, best_loc;
         while (fgets(fn, sizeof fn, f) && fgets(loc, sizeof loc, f)) { std::string a = fn, b = loc; while (!a.empty() && a.back() == '\n') a.pop_back(); while (!b.empty() && b.back() == '\n') b.pop_back();
            if (first_fn.empty()) { first_fn = a; first_loc = b; }
            if (best_fn.empty() && b.find("/usr/include") == std::string::npos && b.find("/usr/lib") == std::string::npos) { best_fn = a; best_loc = b; } }
         pclose(f); if (best_fn.empty()) { best_fn = first_fn; best_loc = first_loc; }
         size_t par = best_fn.find('('); if (par != std::string::npos) best_fn = best_fn.substr(0, par);
         size_t sl = best_loc.rfind('/'); if (sl != std::string::npos) best_loc = best_loc.substr(sl + 1); size_t sp = best_loc.find(' '); if (sp != std::string::npos) best_loc = best_loc.substr(0, sp);
         res = best_fn + "@" + best_loc; } }
   if (res.empty() || res[0] == '?') { char b[40]; snprintf(b, sizeof b, "pc:0x%lx", (unsigned long)pc); res = b; }
   cache[pc] = res; return res;
}
std::string strip_line(const std::string& s) { size_t c = s.rfind(':'); return c == std::string::npos ? s : s.substr(0, c); }

std::vector<uintptr_t> g_watch;
struct RunResult { bool ran = false; int status = 0; bool timeout = false; };
RunResult run_child_once(Body body, const std::vector<uint8_t>& prefix, const std::vector<Point>* prefix_pts, bool verbose, bool lenient, double limit_s) {
   if (!sh) { sh = (Shared*)mmap(nullptr, sizeof(Shared), PROT_READ | PROT_WRITE, MAP_SHARED | MAP_ANONYMOUS, -1, 0); if (sh == MAP_FAILED) { perror("mmap"); exit(3); } }
   sh->n_prefix = (int)prefix.size(); for (size_t i = 0; i < prefix.size(); ++i) { sh->prefix[i] = prefix[i]; sh->prefix_n[i] = prefix_pts ? (*prefix_pts)[i].n : 0; sh->prefix_tid[i] = prefix_pts ? (*prefix_pts)[i].tid : 0; }
   sh->n_watch = (int)g_watch.size(); for (size_t i = 0; i < g_watch.size(); ++i) sh->watch[i] = g_watch[i];
   sh->verbose = verbose; sh->lenient = lenient; sh->n_points = 0; sh->overflow_points = 0; sh->n_race = 0; sh->total_races = 0; sh->foreign_races = 0; sh->n_fail = 0; sh->n_newwatch = 0; sh->outcome_len = 0; sh->outcome[0] = 0;
   sh->done = 0; sh->deadlock = 0; sh->divergence = 0; sh->note[0] = 0; sh->accesses = 0; sh->stack_accesses_skipped = 0; sh->nthreads = 0; sh->switches_at_watched = 0;
   fflush(stdout); fflush(stderr);
   RunResult r; pid_t pid = fork();
   if (pid < 0) { perror("fork"); exit(3); }
   if (pid == 0) {
      child_setup();
      g_active = 1;
      body();
      // main thread: wait until all other threads have finished
      ++in_rt; bool all = true; for (int t = 1; t < nthr; ++t) all = all && thr[t].state == ST_FINISHED;
      if (!all) block_on(K_EXIT, nullptr);
      finish_child();
   }
   // parent: wait with timeout
   auto t0 = std::chrono::steady_clock::now(); int st = 0;
   for (;;) {
      pid_t w = waitpid(pid, &st, WNOHANG);
      if (w == pid) break;
      if (std::chrono::duration<double>(std::chrono::steady_clock::now() - t0).count() > limit_s) { kill(pid, SIGKILL); waitpid(pid, &st, 0); r.timeout = true; break; }
      struct timespec ts = {0, 200000}; nanosleep(&ts, nullptr);
   }
   r.ran = true; r.status = st; return r;
}
// a schedule that does not finish within 10 s is re-run alone with 60 s before it is called a hang (a loaded machine is not a livelock)
RunResult run_child(Body body, const std::vector<uint8_t>& prefix, const std::vector<Point>* prefix_pts, bool verbose, bool lenient = false) {
   RunResult r = run_child_once(body, prefix, prefix_pts, verbose, lenient, 10.0);
   if (r.timeout) r = run_child_once(body, prefix, prefix_pts, verbose, lenient, 60.0);
   return r;
}
void add_finding(std::map<std::string, Finding>& f, const std::string& sig, const std::string& detail, const std::vector<uint8_t>& sched) {
   auto it = f.find(sig); if (it == f.end() || sched.size() < it->second.schedule.size()) f[sig] = Finding{sig, detail, sched};
}
// collects findings of the execution that just ran; returns the recorded points
void harvest(const char* name, const RunResult& rr, const std::vector<uint8_t>& prefix, Stats& st, std::map<std::string, Finding>& findings, std::vector<uint8_t>& full_choices) {
   full_choices.clear(); for (int i = 0; i < sh->n_points; ++i) full_choices.push_back(sh->pts[i].chosen);
   std::string sched = schedule_text(full_choices), nm = name;
   if (rr.timeout) { ++st.hangs; add_finding(findings, nm + "|hang", "execution did not finish within 10 s and, re-run alone, not within 60 s (schedule prefix " + schedule_text(prefix) + ")", prefix); return; }
   if (sh->divergence) { add_finding(findings, "harness:divergence|" + nm, std::string("replay of a recorded prefix diverged: ") + sh->note, prefix); return; }
   if (!(WIFEXITED(rr.status) && WEXITSTATUS(rr.status) == 0 && sh->done == 1)) {
      char b[200]; if (WIFSIGNALED(rr.status)) snprintf(b, sizeof b, "child killed by signal %d", WTERMSIG(rr.status)); else snprintf(b, sizeof b, "child exit status %d (%s)", WIFEXITED(rr.status) ? WEXITSTATUS(rr.status) : -1, sh->note);
      bool harness = sh->done == 2;
      // the shadow table holds 2M words; the scenarios touch a few thousand. Exhausting it means the execution ran away (e.g. it walks
      // a corrupted structure) under this schedule: that is a failure of the code under this schedule, reported like a crash
      if (harness && strstr(sh->note, "shadow table full")) { add_finding(findings, nm + "|runaway-execution (instrumented accesses to > 2M distinct words)", std::string("execution ran away under schedule ") + sched + ": the race detector's shadow memory was exhausted", full_choices); return; }
      add_finding(findings, (harness ? "harness:runtime|" : nm + "|crash|") + std::string(b), std::string(b) + " under schedule " + sched, full_choices); return;
   }
   if (sh->deadlock) add_finding(findings, nm + "|deadlock", std::string(sh->note) + " under schedule " + sched, full_choices);
   if (sh->overflow_points) add_finding(findings, "harness:too-many-points|" + nm, "more scheduling points than the trace can hold", full_choices);
   for (int i = 0; i < sh->n_fail; ++i) add_finding(findings, nm + "|" + sh->fails[i].sig, std::string(sh->fails[i].detail) + "\n  schedule: " + sched, full_choices);
   st.races_reported += sh->total_races - sh->foreign_races; st.foreign_races += sh->foreign_races;
   for (int i = 0; i < sh->n_race; ++i) {
      const Race& r = sh->races[i]; if (r.foreign) continue;
      std::string a = symbolize(r.pc1), b = symbolize(r.pc2); std::string sa = strip_line(a), sb = strip_line(b); if (sb < sa) std::swap(sa, sb);
      char d[900]; snprintf(d, sizeof d, "data race on %s address 0x%lx: thread T%d %s%s at %s  <->  thread T%d %s%s at %s (not ordered by happens-before)\n  schedule: %s", r.is_static ? "static-storage" : "heap/stack", (unsigned long)r.addr,
               r.t1, r.a1 ? "atomic " : "", r.w1 ? "write" : "read", a.c_str(), r.t2, r.a2 ? "atomic " : "", r.w2 ? "write" : "read", b.c_str(), sched.c_str());
      add_finding(findings, nm + "|race|" + sa + "|" + sb, d, full_choices);
   }
   if (st.outcomes.size() < 2000) st.outcomes.insert(nm + ": " + sh->outcome);
   st.instrumented_accesses += sh->accesses; if ((uint64_t)sh->nthreads > st.max_threads) st.max_threads = sh->nthreads;
   if (sh->switches_at_watched) ++st.executions_with_switch_between_conflicting;
}
int preemptions(const std::vector<Point>& pts, size_t upto) { int c = 0; for (size_t j = 0; j < upto && j < pts.size(); ++j) if (pts[j].chosen != 0 && pts[j].cur_enabled) ++c; return c; }

struct Explorer {
   const char* name; Body body; Options opt; Stats* st; std::map<std::string, Finding>* findings; std::chrono::steady_clock::time_point t0; uint64_t top_index = 0; bool stop = false, watch_grew = false;
   bool out_of_budget() {
      if (stop) return true;
      if (st->executions >= opt.max_executions || std::chrono::duration<double>(std::chrono::steady_clock::now() - t0).count() > opt.deadline_s || (opt.keep_going && !opt.keep_going())) { st->complete = false; stop = true; }
      return stop;
   }
   // runs prefix (choices + the points they were recorded at), returns points of the whole execution
   bool run(const std::vector<uint8_t>& prefix, const std::vector<Point>& prefix_pts, std::vector<Point>& pts, bool count) {
      RunResult rr = run_child(body, prefix, &prefix_pts, false);
      std::vector<uint8_t> full; std::set<std::string> before; for (auto& kv : *findings) before.insert(kv.first);
      std::vector<Point> first_pts(sh->pts, sh->pts + sh->n_points);
      harvest(name, rr, prefix, *st, *findings, full);
      // a new kind of finding is only trusted if the SAME complete schedule shows it again (replay before report)
      std::vector<std::string> fresh; for (auto& kv : *findings) if (!before.count(kv.first) && kv.first.compare(0, 8, "harness:") != 0) fresh.push_back(kv.first);
      if (!fresh.empty() && count) {
         Shared keep = *sh;                                   // the replay overwrites the shared record: keep this execution's
         RunResult r2 = run_child(body, full, nullptr, false);
         Stats s2; std::map<std::string, Finding> f2; std::vector<uint8_t> full2; harvest(name, r2, full, s2, f2, full2);
         for (auto& sig : fresh) if (!f2.count(sig)) { Finding f = (*findings)[sig]; findings->erase(sig); (*findings)["harness:unstable-finding|" + sig] = Finding{"harness:unstable-finding|" + sig, "not reproduced when the same schedule was executed again: " + f.detail, f.schedule}; }
         *sh = keep;
      }
      size_t nf = findings->size();
      pts.assign(sh->pts, sh->pts + sh->n_points);
      if (count) { ++st->executions; st->points += pts.size(); if (pts.size() > st->max_points) st->max_points = pts.size(); int p = preemptions(pts, pts.size()); ++st->by_preemptions[p > 7 ? 7 : p];
         if (st->sample_schedules.size() < 6 && (st->executions == 1 || (st->executions % 977) == 0)) st->sample_schedules.push_back(std::string(name) + ": " + schedule_text(full) + " -> " + sh->outcome); }
      (void)nf;
      if (sh->n_newwatch) {      // a location became shared that the learning runs had not seen: recorded prefixes are void, the search restarts with the larger set
         st->late_watch_additions += sh->n_newwatch; for (int i = 0; i < sh->n_newwatch; ++i) g_watch.push_back(sh->newwatch[i]); std::sort(g_watch.begin(), g_watch.end()); g_watch.erase(std::unique(g_watch.begin(), g_watch.end()), g_watch.end());
         if (count) { watch_grew = true; stop = true; }
      }
      return !rr.timeout && !sh->divergence && sh->done == 1 && !watch_grew;
   }
   void expand(const std::vector<Point>& pts, size_t from, int depth) {
      for (size_t i = from; i < pts.size() && !out_of_budget(); ++i) {
         int cost = preemptions(pts, i) + (pts[i].cur_enabled ? 1 : 0);
         if (cost > opt.bound) continue;
         for (int alt = 1; alt < pts[i].n && !out_of_budget(); ++alt) {
            if (depth == 0) { uint64_t k = top_index++; if (k % opt.nshards != opt.shard) continue; }
            std::vector<uint8_t> prefix; std::vector<Point> ppts(pts.begin(), pts.begin() + i + 1);
            for (size_t j = 0; j < i; ++j) prefix.push_back(pts[j].chosen);
            prefix.push_back(uint8_t(alt));
            std::vector<Point> npts;
            if (run(prefix, ppts, npts, true)) expand(npts, i + 1, depth + 1);
         }
      }
   }
};
} // namespace

std::string schedule_text(const std::vector<uint8_t>& s) {      // run-length: "0*12 1 0*7 2"
   std::string o; size_t i = 0; if (s.empty()) return "(default)";
   while (i < s.size()) { size_t j = i; while (j < s.size() && s[j] == s[i]) ++j; if (!o.empty()) o += ' '; o += std::to_string(int(s[i])); if (j - i > 1) o += "*" + std::to_string(j - i); i = j; }
   return o;
}
std::vector<uint8_t> parse_schedule(const std::string& s) {
   std::vector<uint8_t> v; size_t i = 0;
   while (i < s.size()) { while (i < s.size() && s[i] == ' ') ++i; if (i >= s.size() || !isdigit((unsigned char)s[i])) break; int val = 0; while (i < s.size() && isdigit((unsigned char)s[i])) val = val * 10 + (s[i++] - '0'); int rep = 1; if (i < s.size() && s[i] == '*') { ++i; rep = 0; while (i < s.size() && isdigit((unsigned char)s[i])) rep = rep * 10 + (s[i++] - '0'); } for (int k = 0; k < rep; ++k) v.push_back(uint8_t(val)); }
   return v;
}

void explore(const char* name, Body body, const Options& opt, Stats& st, std::map<std::string, Finding>& findings) {
   g_watch.clear();
   uint64_t restarts = 0;
   for (;;) {
      Explorer ex; ex.name = name; ex.body = body; ex.opt = opt; ex.st = &st; ex.findings = &findings; ex.t0 = std::chrono::steady_clock::now();
      // ---- learning phase: which locations are shared? run the default schedule and the "other threads first" schedule until the watch set is stable
      std::vector<Point> pts; std::vector<Point> none;
      for (int round = 0; round < 12; ++round) {
         size_t before = g_watch.size();
         ex.run({}, none, pts, false);
         std::vector<uint8_t> alt; for (size_t i = 0; i < pts.size(); ++i) alt.push_back(uint8_t(pts[i].n - 1));
         RunResult rr = run_child(body, alt, nullptr, false, true); (void)rr;
         if (sh->n_newwatch) { for (int i = 0; i < sh->n_newwatch; ++i) g_watch.push_back(sh->newwatch[i]); std::sort(g_watch.begin(), g_watch.end()); g_watch.erase(std::unique(g_watch.begin(), g_watch.end()), g_watch.end()); }
         if (g_watch.size() == before) break;
      }
      st.watch_locations = g_watch.size();
      // ---- root execution + depth-first expansion
      uint64_t ex0 = st.executions;
      bool ok = ex.run({}, none, pts, opt.shard == 0);
      if (ok) ex.expand(pts, 0, 0);
      st.watch_locations = g_watch.size();
      if (ex.watch_grew && restarts < 20 && (!opt.keep_going || opt.keep_going())) {
         ++restarts; st.late_watch_additions = restarts;          // reported as the number of restarts
         // the executions of the aborted round stay counted (they were real executions of the code); the search starts over
         (void)ex0; st.complete = true; continue;
      }
      if (!ok && !ex.watch_grew) st.complete = false;
      if (ex.watch_grew) st.complete = false;
      break;
   }
}

void replay(const char* name, Body body, const std::vector<uint8_t>& schedule, std::map<std::string, Finding>& findings, bool verbose) {
   // the watch set must be the one of the exploration: learn it the same way
   Stats st; std::map<std::string, Finding> tmp; Options o; o.bound = 1; o.max_executions = 200;      // short search: also picks up locations that only become shared under a preemption
   explore(name, body, o, st, tmp);
   for (int rep = 0; rep < 2; ++rep) {
      RunResult rr = run_child(body, schedule, nullptr, verbose && rep == 0);
      std::vector<uint8_t> full; Stats s2; std::map<std::string, Finding> f2; harvest(name, rr, schedule, s2, f2, full);
      printf("  replay %d of schedule [%s]: %d scheduling points, outcome '%s', %zu finding(s)\n", rep + 1, schedule_text(schedule).c_str(), sh->n_points, sh->outcome, f2.size());
      for (auto& kv : f2) { printf("    %s\n      %s\n", kv.first.c_str(), kv.second.detail.c_str()); findings[kv.first] = kv.second; }
   }
}
} // namespace xs
