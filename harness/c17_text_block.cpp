// C17  Text-block formatting preserves the words and respects indentation and width      (engine E2 xenum)
//
// alphabet : widths W in 8..12, indents 0..3, both first-line modes; texts of 1..K words (K = 4 quick / 5 thorough,
//            6 for the narrowest configuration) joined by single blanks or newlines; word shapes: a letter repeated n
//            times with n in {1, 2, W-indent-3 .. W-indent+1} (the arithmetic neighbourhood of the wrap condition),
//            "-" and "-x" (list lines) and the forced-break token "nn". Word i uses letter 'a'+i, so a lost,
//            duplicated, reordered or split word changes the comparison.
// oracle   : on the produced text only (no re-implementation of the wrapping algorithm):
//            (1) words of the output == words of the input without the "nn" tokens, in order, none split;
//            (2) every line after the first starts with the indentation (the first one iff requested), followed by
//                text, by two more blanks and text (continuation of a list line), or by nothing;
//            (3) the first word of every input line starts an output line (explicit newlines are kept);
//            (4) no line is longer than W unless it holds a single word (the first line is measured as if the
//                indentation had already been written by the caller when it is not written by the formatter).
#include "engine/common.hpp"
#include "celma/format/text_block.hpp"
#include <sstream>

static uint64_t g_evals = 0, g_wrapped = 0, g_overlong_single = 0;

struct Cfg { int W, indent; bool first; };

static std::vector<std::string> split_ws(const std::string& s, std::vector<int>* line_of = nullptr, std::vector<bool>* first_on_line = nullptr) {
   std::vector<std::string> out; int line = 0; bool line_has_word = false; size_t i = 0;
   while (i < s.size()) {
      if (s[i] == '\n') { ++line; line_has_word = false; ++i; continue; }
      if (s[i] == ' ') { ++i; continue; }
      size_t j = i; while (j < s.size() && s[j] != ' ' && s[j] != '\n') ++j;
      out.push_back(s.substr(i, j - i));
      if (line_of) line_of->push_back(line);
      if (first_on_line) first_on_line->push_back(!line_has_word);
      line_has_word = true; i = j;
   }
   return out;
}

static void check_one(const Cfg& c, const std::vector<std::string>& words, const std::vector<char>& seps) {
   std::string txt;
   for (size_t i = 0; i < words.size(); ++i) { if (i) txt += seps[i - 1]; txt += words[i]; }
   std::ostringstream os;
   celma::format::TextBlock tb(c.indent, c.W, c.first);
   tb.format(os, txt); ++g_evals;
   const std::string out = os.str();
   auto rep = [&](const std::string& oracle, const std::string& what) {
      std::string cfg = "W=" + std::to_string(c.W) + " indent=" + std::to_string(c.indent) + " indentFirst=" + (c.first ? "1" : "0");
      bool dash = false, nn = false; for (auto& w : words) { if (w[0] == '-') dash = true; if (w == "nn") nn = true; }
      vf::violation(oracle + (dash ? "|list" : "|plain") + (nn ? "|nn" : ""), cfg + " text=\"" + vf::vis(txt) + "\" -> \"" + vf::vis(out) + "\": " + what,
                    std::to_string(c.W) + " " + std::to_string(c.indent) + " " + (c.first ? "1" : "0") + " " + vf::vis(txt));
   };
   if (vf::verbose()) printf("  W=%d indent=%d first=%d \"%s\" -> \"%s\"\n", c.W, c.indent, int(c.first), vf::vis(txt).c_str(), vf::vis(out).c_str());
   // (1) words
   std::vector<std::string> in_words; std::vector<int> in_line; std::vector<bool> in_first;
   { std::vector<int> l; std::vector<bool> f; auto all = split_ws(txt, &l, &f);
     // first non-nn word of each input line is the one that must start an output line
     std::vector<bool> seen_line(words.size() + 1, false);
     for (size_t i = 0; i < all.size(); ++i) { if (all[i] == "nn") continue; in_words.push_back(all[i]); in_line.push_back(l[i]); in_first.push_back(!seen_line[l[i]]); seen_line[l[i]] = true; } }
   std::vector<int> out_line; std::vector<bool> out_first;
   std::vector<std::string> out_words = split_ws(out, &out_line, &out_first);
   if (out_words != in_words) {
      std::string o; for (auto& w : out_words) o += w + "|"; std::string e; for (auto& w : in_words) e += w + "|";
      rep("words", "output words " + o + " expected " + e); return;
   }
   // (3) explicit newlines kept
   for (size_t i = 0; i < in_words.size(); ++i) {
      if (in_first[i] && in_line[i] > 0 && !out_first[i]) { rep("newline", "word '" + in_words[i] + "' starts an input line but not an output line"); return; }
      if (i > 0 && in_line[i] > in_line[i - 1] && out_line[i] <= out_line[i - 1]) { rep("newline", "explicit newline before '" + in_words[i] + "' was dropped"); return; }
   }
   // (2) indentation, (4) width -- per output line
   std::vector<std::string> lines; { size_t p = 0; for (;;) { size_t q = out.find('\n', p); if (q == std::string::npos) { lines.push_back(out.substr(p)); break; } lines.push_back(out.substr(p, q - p)); p = q + 1; } }
   if (lines.size() > 1) ++g_wrapped;
   for (size_t li = 0; li < lines.size(); ++li) {
      const std::string& L = lines[li];
      bool indented = (li > 0) || c.first;
      size_t lead = 0; while (lead < L.size() && L[lead] == ' ') ++lead;
      if (indented) {
         if (lead < size_t(c.indent) && !(lead == L.size() && false)) { rep("indent", "line " + std::to_string(li) + " has " + std::to_string(lead) + " leading blanks, indentation is " + std::to_string(c.indent)); return; }
         if (lead != size_t(c.indent) && lead != size_t(c.indent) + 2 && lead != L.size()) { rep("indent", "line " + std::to_string(li) + " has " + std::to_string(lead) + " leading blanks (allowed: indentation, or indentation+2 inside a list entry)"); return; }
      } else if (lead != 0 && lead != L.size()) { rep("indent", "first line must not be indented by the formatter, has " + std::to_string(lead) + " leading blanks"); return; }
      size_t eff = L.size() + (indented ? 0 : size_t(c.indent));
      size_t nwords = split_ws(L).size();
      if (eff > size_t(c.W)) {
         if (nwords > 1) { rep("width", "line " + std::to_string(li) + " \"" + L + "\" is " + std::to_string(eff) + " columns wide and holds " + std::to_string(nwords) + " words"); return; }
         ++g_overlong_single;
      }
      if (!L.empty() && L.back() == ' ' && nwords > 0) { /* trailing blank: harmless, not part of the property */ }
   }
   vf::outcome(std::to_string(lines.size()) + " lines");
}

static void enumerate(const Cfg& c, int maxwords) {
   // word shapes for position i (letter 'a'+i)
   std::vector<int> lens; { std::set<int> s{1, 2}; for (int d = -3; d <= 1; ++d) { int n = c.W - c.indent + d; if (n >= 1) s.insert(n); } lens.assign(s.begin(), s.end()); }
   const int nshapes = int(lens.size()) + 3;         // + "-", "-x", "nn"
   auto shape = [&](int pos, int k) -> std::string {
      char ch = char('a' + pos);
      if (k < int(lens.size())) return std::string(lens[k], ch);
      if (k == int(lens.size())) return "-";
      if (k == int(lens.size()) + 1) return std::string("-") + ch;
      return "nn";
   };
   for (int n = 1; n <= maxwords; ++n) {
      std::vector<unsigned> radix; for (int i = 0; i < n; ++i) radix.push_back(nshapes); for (int i = 0; i + 1 < n; ++i) radix.push_back(2);
      vf::Odometer od(radix);
      while (od.next()) {
         std::vector<std::string> words; std::vector<char> seps;
         for (int i = 0; i < n; ++i) words.push_back(shape(i, od[i]));
         for (int i = 0; i + 1 < n; ++i) seps.push_back(od[n + i] ? '\n' : ' ');
         check_one(c, words, seps);
         if ((g_evals & 0xfff) == 0) { vf::heartbeat(); if (vf::deadline_hit()) return; }
      }
   }
}

int main(int argc, char** argv) {
   vf::init(argc, argv);
   if (vf::replaying()) {
      int W, ind, first; char buf[400] = {0};
      if (sscanf(vf::replay_case().c_str(), "%d %d %d %399[^\r]", &W, &ind, &first, buf) == 4) {
         std::string t = buf, txt; for (size_t i = 0; i < t.size(); ++i) { if (t[i] == '\\' && t.compare(i, 4, "\\x0a") == 0) { txt += '\n'; i += 3; } else txt += t[i]; }
         std::vector<std::string> w; std::vector<char> s; size_t p = 0;
         for (size_t i = 0; i <= txt.size(); ++i) if (i == txt.size() || txt[i] == ' ' || txt[i] == '\n') { w.push_back(txt.substr(p, i - p)); if (i < txt.size()) s.push_back(txt[i]); p = i + 1; }
         check_one(Cfg{W, ind, first != 0}, w, s);
      }
      vf::finish(); return 0;
   }
   int maxwords = vf::deep() ? 6 : vf::thorough() ? 5 : 4;
   for (int W = 8; W <= 12; ++W) for (int indent = 0; indent <= 3; ++indent) for (int first = 0; first < 2; ++first) {
      if (!vf::want_case()) continue;
      Cfg c{W, indent, first != 0};
      vf::note("W=" + std::to_string(W) + " indent=" + std::to_string(indent) + " first=" + std::to_string(first));
      uint64_t before = g_evals;
      enumerate(c, (vf::thorough() && W == 8 && indent == 3) ? 6 : maxwords);
      vf::nontrivial_by_construction(0);
      vf::sample("W=" + std::to_string(W) + " indent=" + std::to_string(indent) + " indentFirst=" + std::to_string(first) + ": " + std::to_string(g_evals - before) + " texts, e.g. \"- " + std::string(W - indent - 2, 'b') + " nn cc\\ndd\"");
   }
   vf::count("evaluations", g_evals); vf::count("transitions", g_evals); vf::count("states", g_evals);
   vf::count("texts_wrapped_to_several_lines", g_wrapped); vf::count("lines_with_one_overlong_word", g_overlong_single);
   vf::nontrivial_by_construction(g_wrapped);      // non-trivial: texts whose output has more than one line (each text is enumerated once)
   vf::finish();
   return 0;
}
