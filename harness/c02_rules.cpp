// C02  No command line that breaks a declared rule is silently accepted                  (engine E2 xenum)
// C03  Every command line that obeys the declared rules is accepted
//
// One enumeration, two oracles (--opt prop=C02|C03):
//   configurations : a RULE MATRIX - every rule (mandatory, value checks at and around their boundary, cardinalities,
//                    excludes/requires with every key kind of the partner, all_of/any_of/one_of, differ, disjoint,
//                    deprecated, conversion) instantiated on every destination kind it applies to; thorough: all pairs
//                    of rule families on disjoint arguments; C03 additionally with 0..2 bystander arguments
//   abstract lines : ALL sequences of <= D uses over the arguments x their value domains (good, boundary-good,
//                    boundary-bad, bad); the abstract evaluator classifies each as valid / invalid(rule) / unspecified
//   surface forms  : canonical + deviations (short/long/=/glued/abbreviation/flag group)
//   C02 oracle     : evaluator says invalid  => evalArguments must throw (any std::exception); plus surface-level
//                    rule-breaking mutations (unknown key, missing value, stray free value, ambiguous/forbidden abbreviation)
//   C03 oracle     : evaluator says valid    => evalArguments returns and the destinations equal the evaluator's
#include "harness/args.hpp"
using namespace hc;

static bool g_c03 = false;
static uint64_t g_evals = 0, g_invalid_lines = 0, g_valid_lines = 0, g_unspec = 0, g_surface = 0;
static std::map<std::string, uint64_t> g_rule_hits;

#include "harness/rule_families.hpp"
using namespace rules;

// bystander variants for C03: the same configuration with additional, unused arguments
static std::vector<Cfg> with_bystanders(const Cfg& base, bool thorough) {
   std::vector<Cfg> r{base};
   { Cfg c = base; Arg x = mk('x', "xray", INT); x.checks = {ck(3, 1, 9)}; c.args.push_back(x); r.push_back(c); }
   { Cfg c = base; Arg y = mk('y', "alphabetic", STR); y.hidden = true; c.args.insert(c.args.begin(), y); for (auto& a : c.args) { for (int& e : a.excl) ++e; for (int& e : a.req) ++e; } for (auto& h : c.hcs) for (int& m : h.members) ++m; r.push_back(c); }
   if (thorough) {
      { Cfg c = base; Arg z = mk('z', "be", FLAG); z.deprecated = true; Arg w = mk('u', "gam", VECINT); w.card = 1; w.cardA = 2; c.args.push_back(z); c.args.push_back(w); r.push_back(c); }
      { Cfg c = base; Arg x = mk('x', "xray", INT), y = mk('y', "yankee", INT); c.args.push_back(x); c.args.push_back(y); HConstraint h; h.type = 2; h.members = {int(c.args.size()) - 2, int(c.args.size()) - 1}; c.hcs.push_back(h); r.push_back(c); }
   }
   return r;
}

static std::string spelling_class(const Cfg& cfg, const std::vector<std::string>& words) {
   std::set<std::string> cls;
   for (auto& w : words) {
      if (w.size() >= 3 && w[0] == '-' && w[1] == '-') { std::string k = w.substr(2, w.find('=') == std::string::npos ? std::string::npos : w.find('=') - 2); bool full = false; for (auto& a : cfg.args) if (a.lk == k) full = true; cls.insert(full ? "long" : "abbr"); }
      else if (w.size() >= 2 && w[0] == '-') cls.insert(w.size() == 2 ? "short" : "short-glued/group");
   }
   std::string s; for (auto& c : cls) s += c + "+"; return s;
}

static void check_line(const RCfg& rc, const Cfg& cfg, const std::vector<Use>& uses, int maxdev, uint64_t case_idx, const std::string& variant) {
   // a free (positional) value directly behind a multi-value argument belongs to that argument by definition: a line that
   // wants it to be the positional argument cannot be written without --endvalues -> no verdict
   for (size_t i = 1; i < uses.size(); ++i) if (cfg.args[uses[i].arg].positional() && cfg.args[uses[i - 1].arg].multival) { ++g_unspec; return; }
   Verdict v = evaluate(cfg, uses);
   if (v.k == UNSPEC) { ++g_unspec; return; }
   if (v.k == INVALID) { ++g_invalid_lines; ++g_rule_hits[v.reason]; if (g_c03) return; }
   else { ++g_valid_lines; if (!g_c03) return; }
   for_each_spelling(cfg, uses, maxdev, [&](const std::vector<std::string>& words, int) {
      Outcome o = run(cfg, words); ++g_evals;
      if (vf::verbose()) printf("  [%s] %s -> model %s(%s) impl %s %s\n", rc.family.c_str(), words_text(words).c_str(), v.k == VALID ? "valid" : "invalid", v.reason.c_str(), o.kind ? "throws" : "returns", o.what.c_str());
      if (!g_c03) {
         if (o.kind == 0) vf::violation("accepted|" + v.reason + "|" + rc.family + "|" + spelling_class(cfg, words), cfg.text() + " line " + words_text(words) + " breaks rule '" + v.reason + "' (" + uses_text(cfg, uses) + ") but evalArguments returned normally", std::to_string(case_idx));
         else if (o.kind == 2) vf::violation("non-std-exception|" + rc.family, cfg.text() + " line " + words_text(words) + ": exception not derived from std::exception", std::to_string(case_idx));
      } else {
         if (o.kind != 0) { std::string cat = o.what.substr(0, o.what.find('\'')); vf::violation("rejected|" + rc.family + variant + "|" + spelling_class(cfg, words) + "|" + cat, cfg.text() + " valid line " + words_text(words) + " (" + uses_text(cfg, uses) + ") rejected: " + o.what, std::to_string(case_idx)); }
         else if (o.snap != v.snap) vf::violation("wrong-value|" + rc.family + variant + "|" + spelling_class(cfg, words), cfg.text() + " line " + words_text(words) + " gives " + snap_text(o.snap) + " expected " + snap_text(v.snap), std::to_string(case_idx));
      }
   });
}

static void all_lines(const RCfg& rc, const Cfg& cfg, const std::vector<std::vector<std::string>>& dom, int depth, int maxdev, uint64_t case_idx, const std::string& variant) {
   // alphabet of uses
   std::vector<Use> alpha;
   for (size_t i = 0; i < cfg.args.size(); ++i) {
      if (i >= dom.size() || (cfg.args[i].kind != FLAG && dom[i].empty())) continue;    // bystanders are never used
      if (cfg.args[i].kind == FLAG) { Use u; u.arg = int(i); alpha.push_back(u); }
      else for (auto& v : dom[i]) { Use u; u.arg = int(i); u.hasval = true; u.val = v; alpha.push_back(u); }
   }
   // multi-value arguments: additionally uses with further, separate values
   for (size_t i = 0; i < cfg.args.size() && i < dom.size(); ++i) if (cfg.args[i].multival) {
      Use u; u.arg = int(i); u.hasval = true; u.val = "1"; u.more = {"2", "3"}; alpha.push_back(u);
      Use w; w.arg = int(i); w.hasval = true; w.val = "1,2"; w.more = {"3"}; alpha.push_back(w);
   }
   check_line(rc, cfg, {}, maxdev, case_idx, variant);                    // the empty line (mandatory, one_of)
   for (int d = 1; d <= depth; ++d) {
      vf::Odometer od(std::vector<unsigned>(d, unsigned(alpha.size())));
      while (od.next()) { std::vector<Use> uses; for (int i = 0; i < d; ++i) uses.push_back(alpha[od[i]]); check_line(rc, cfg, uses, maxdev, case_idx, variant); }
      if (vf::deadline_hit()) return;
   }
}

// surface-level rule-breaking mutations (C02): no abstract counterpart
static void surface_mutations(const RCfg& rc, uint64_t case_idx) {
   const Cfg& cfg = rc.cfg;
   auto must_throw = [&](const std::vector<std::string>& words, const std::string& rule) {
      Outcome o = run(cfg, words); ++g_evals; ++g_surface;
      if (vf::verbose()) printf("  [surface %s] %s -> %s %s\n", rule.c_str(), words_text(words).c_str(), o.kind ? "throws" : "returns", o.what.c_str());
      if (o.kind == 0) vf::violation("accepted|" + rule + "|" + rc.family, cfg.text() + " line " + words_text(words) + " breaks rule '" + rule + "' but evalArguments returned normally", std::to_string(case_idx));
      else if (o.kind == 2) vf::violation("non-std-exception|" + rc.family, cfg.text() + " line " + words_text(words), std::to_string(case_idx));
   };
   // a valid prefix line to put the mutation behind: each single valid use
   std::vector<std::vector<std::string>> bases{{}};
   for (size_t i = 0; i < cfg.args.size(); ++i) { Use u; u.arg = int(i); if (cfg.args[i].kind != FLAG) { if (rc.dom[i].empty()) continue; u.hasval = true; u.val = rc.dom[i][0]; }
      if (evaluate(cfg, {u}).k != VALID) continue; auto f = spell_use(cfg, u); if (!f.empty()) bases.push_back(f[0]); }
   for (auto& base : bases) for (int pos = 0; pos < 2; ++pos) {
      auto put = [&](const std::vector<std::string>& extra) { std::vector<std::string> w; if (pos == 0) { w = extra; w.insert(w.end(), base.begin(), base.end()); } else { w = base; w.insert(w.end(), extra.begin(), extra.end()); } return w; };
      must_throw(put({"-q"}), "unknown-short"); must_throw(put({"--quebec"}), "unknown-long"); must_throw(put({"--quebec=1"}), "unknown-long");
      { bool has_pos = false; for (auto& a : cfg.args) if (a.positional()) has_pos = true; if (!has_pos) must_throw(put({"stray"}), "free-value-without-positional"); }
      for (size_t i = 0; i < cfg.args.size(); ++i) {
         const Arg& a = cfg.args[i]; if (a.deprecated) continue;
         if (a.kind != FLAG) {      // value missing: at the end of the line, before another key
            if (a.sk) { if (pos == 1) must_throw(put({std::string("-") + a.sk}), "value-missing-at-end"); must_throw(put({std::string("-") + a.sk, "-q"}), "value-missing-before-key"); }
            if (!a.lk.empty()) { if (pos == 1) must_throw(put({"--" + a.lk}), "value-missing-at-end"); must_throw(put({"--" + a.lk, "--" + a.lk}), "value-missing-before-key"); }
         }
         if (!a.lk.empty() && a.lk.size() > 3) {
            std::string p = a.lk.substr(0, a.lk.size() - 1); bool exact_other = false; size_t matches = 0;
            for (auto& b : cfg.args) { if (b.lk == p) exact_other = true; if (!b.lk.empty() && b.lk.compare(0, p.size(), p) == 0) ++matches; }
            std::vector<std::string> w = a.kind == FLAG ? std::vector<std::string>{"--" + p} : std::vector<std::string>{"--" + p + "=" + (rc.dom[i].empty() ? "5" : rc.dom[i][0])};
            if (!exact_other && !cfg.abbr) must_throw(put(w), "abbreviation-while-disabled");
            if (!exact_other && cfg.abbr && matches >= 2) must_throw(put(w), "ambiguous-abbreviation");
         }
      }
   }
}

int main(int argc, char** argv) {
   std::vector<char*> args; std::string prop = "C02";
   for (int i = 0; i < argc; ++i) { if (std::string(argv[i]) == "--opt" && i + 1 < argc) { std::string o = argv[++i]; if (o.rfind("prop=", 0) == 0) prop = o.substr(5); } else args.push_back(argv[i]); }
   vf::init(int(args.size()), args.data());
   g_c03 = prop == "C03";
   if (vf::replaying()) { vf::ctx().only = strtoll(vf::replay_case().c_str(), nullptr, 10); vf::ctx().have_replay = false; }
   const bool th = vf::thorough();
   std::vector<RCfg> fams; families(fams, th);
   uint64_t configs = 0;
   for (auto& rc : fams) for (int abbr = 1; abbr >= 0; --abbr) {
      RCfg r = rc; r.cfg.abbr = abbr != 0;
      bool pair = r.family.find('+') != std::string::npos;
      int depth = pair ? (vf::deep() ? 4 : 3) : (vf::deep() ? 5 : th ? 4 : 3);
      if (!g_c03) {
         if (!vf::want_case()) continue;
         vf::note(r.family + " " + r.cfg.text()); ++configs;
         all_lines(r, r.cfg, r.dom, depth, 2, vf::current_case(), "");
         surface_mutations(r, vf::current_case());
         vf::nontrivial_by_construction();
         if (configs % 23 == 1) vf::sample("[" + r.family + "] " + r.cfg.text() + ": all lines of <= " + std::to_string(depth) + " uses, the invalid ones in all spellings with <= " + (th ? "2" : "1") + " deviations");
      } else {
         std::vector<Cfg> vars = with_bystanders(r.cfg, th);
         for (size_t vi = 0; vi < vars.size(); ++vi) {
            if (!vf::want_case()) continue;
            // bystanders inserted in front shift the argument indices: the domain vector must follow
            std::vector<std::vector<std::string>> dom = r.dom; if (vars[vi].args.size() > r.cfg.args.size() && vars[vi].args[0].lk == "alphabetic") dom.insert(dom.begin(), std::vector<std::string>());
            // a bystander in front must never be used: give it an empty domain and mark it as non-flag (STR) so that all_lines skips it
            vf::note(r.family + " v" + std::to_string(vi) + " " + vars[vi].text()); ++configs;
            all_lines(r, vars[vi], dom, depth, 2, vf::current_case(), vi ? "+bystander" : "");
            vf::nontrivial_by_construction();
            if (configs % 41 == 1) vf::sample("[" + r.family + "] " + vars[vi].text() + ": all valid lines of <= " + std::to_string(depth) + " uses in all spellings with <= " + (th ? "2" : "1") + " deviations");
         }
      }
      if (vf::stop_enumeration()) break;
   }
   vf::count("evaluations", g_evals); vf::count("transitions", g_evals); vf::count("states", configs);
   vf::count("abstract_lines_invalid", g_invalid_lines); vf::count("abstract_lines_valid", g_valid_lines); vf::count("abstract_lines_unspecified_skipped", g_unspec); vf::count("surface_mutations", g_surface);
   for (auto& kv : g_rule_hits) { vf::count("rule_" + kv.first, kv.second); vf::outcome("rule broken: " + kv.first); }
   vf::finish();
   return 0;
}
