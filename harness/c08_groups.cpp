// C08  Evaluating through an argument group equals one handler owning all arguments       (engine E2 xenum)
//
// configurations : the rule-matrix configurations of C02/C03 (rule_families.hpp)
// partitions     : ALL set partitions of the arguments into 1..3 named member handlers; partitions that would separate
//                  an argument from a constraint partner are skipped and counted (the property speaks of rules "attached
//                  inside a member handler")
// lines          : all sequences of <= 2 (quick) / <= 3 (thorough) uses over the value domains, valid and rule-breaking,
//                  canonical spelling + 1 deviation
// oracle         : DIFFERENTIAL - Groups::evalArguments (fresh Groups singleton per case) against Handler::evalArguments on
//                  the merged definition: same return/throw verdict, same destination values on return.
// plus           : defining a key (every pair from the key pool of C05) in two member handlers must be refused - in both
//                  handler creation orders and both definition orders.
#include "harness/rule_families.hpp"
using namespace rules;
using namespace celma::prog_args;

static uint64_t g_evals = 0, g_partitions = 0, g_skipped_cross = 0, g_both_throw = 0, g_both_return = 0, g_dupdefs = 0;

// all set partitions of {0..n-1} into at most 3 blocks, as block index per element (restricted growth strings)
static void partitions(size_t n, std::vector<std::vector<int>>& out) {
   std::vector<int> rg(n, 0);
   std::function<void(size_t, int)> rec = [&](size_t i, int maxb) { if (i == n) { out.push_back(rg); return; } for (int b = 0; b <= maxb + 1 && b < 3; ++b) { rg[i] = b; rec(i + 1, std::max(maxb, b)); } };
   if (n) { rg[0] = 0; rec(1, 0); }
}

struct GroupRun { int kind = 0; std::string what; Snapshot snap; };
static GroupRun run_group(const Cfg& cfg, const std::vector<int>& block_of, const std::vector<std::string>& words, bool reverse_members) {
   GroupRun r; std::ostringstream out, err;
   Groups::reset();
   std::vector<Slot> slots(cfg.args.size()); std::vector<detail::TypedArgBase*> targs(cfg.args.size(), nullptr);
   try {
      Groups& g = Groups::instance(out, err, 0);
      int nb = 0; for (int b : block_of) nb = std::max(nb, b + 1);
      for (int bi = 0; bi < nb; ++bi) {
         int b = reverse_members ? nb - 1 - bi : bi;
         auto h = g.getArgHandler("member" + std::to_string(b), cfg.abbr ? 0 : Handler::hfNoAbbr);
         std::vector<int> mine; for (size_t i = 0; i < cfg.args.size(); ++i) if (block_of[i] == b) mine.push_back(int(i));
         add_arguments(cfg, *h, slots, targs, mine);
         std::vector<HConstraint> hcs; for (auto& hcn : cfg.hcs) if (block_of[hcn.members[0]] == b) hcs.push_back(hcn);
         add_hconstraints(cfg, *h, hcs);
      }
      Argv av(words);
      g.evalArguments(av.argc(), av.argv());
   } catch (const std::exception& e) { r.kind = 1; r.what = e.what(); } catch (...) { r.kind = 2; r.what = "non-std exception"; }
   r.snap = snapshot(cfg, slots);
   Groups::reset();
   return r;
}

static void check_line(const RCfg& rc, const std::vector<int>& block_of, const std::vector<Use>& uses, int maxdev, uint64_t case_idx) {
   const Cfg& cfg = rc.cfg;
   for (size_t i = 1; i < uses.size(); ++i) if (cfg.args[uses[i].arg].positional() && cfg.args[uses[i - 1].arg].multival) return;
   auto compare = [&](const std::vector<std::string>& words, int) {
      Outcome single = run(cfg, words);
      for (int rev = 0; rev < 2; ++rev) {
         GroupRun grp = run_group(cfg, block_of, words, rev != 0); ++g_evals; vf::heartbeat();
         std::string part; for (int b : block_of) part += std::to_string(b);
         if (vf::verbose()) printf("  [%s] partition %s%s line %s -> single %s %s | group %s %s\n", rc.family.c_str(), part.c_str(), rev ? " (members created in reverse)" : "", words_text(words).c_str(), single.kind ? "throws" : "returns", single.what.c_str(), grp.kind ? "throws" : "returns", grp.what.c_str());
         // an exact long key of one member that is at the same time a proper prefix of a long key of ANOTHER member
         std::string xm; for (auto& w : words) if (w.size() > 2 && w[0] == '-' && w[1] == '-') { std::string k = w.substr(2, w.find('=') == std::string::npos ? std::string::npos : w.find('=') - 2);
            for (size_t i = 0; i < cfg.args.size(); ++i) if (cfg.args[i].lk == k) for (size_t j = 0; j < cfg.args.size(); ++j) if (block_of[j] != block_of[i] && cfg.args[j].lk.size() > k.size() && cfg.args[j].lk.compare(0, k.size(), k) == 0) xm = "|exact-key-is-prefix-in-other-member"; }
         std::string ctx = cfg.text() + " partition " + part + (rev ? " (members created in reverse order)" : "") + " line " + words_text(words);
         if (single.kind == 0 && grp.kind == 0) { ++g_both_return; vf::outcome("both accept " + snap_text(grp.snap).substr(0, 80)); if (single.snap != grp.snap) vf::violation("values-differ|" + rc.family + xm, ctx + ": group gives " + snap_text(grp.snap) + ", single handler " + snap_text(single.snap), std::to_string(case_idx)); }
         else if (single.kind != 0 && grp.kind != 0) { ++g_both_throw; vf::outcome("both reject: " + single.what.substr(0, 60)); }
         else if (single.kind != 0) vf::violation("group-accepts|" + rc.family + "|" + single.what.substr(0, single.what.find('\'')) + xm, ctx + ": rejected by the single handler (" + single.what + ") but accepted through the group", std::to_string(case_idx));
         else vf::violation("group-rejects|" + rc.family + "|" + grp.what.substr(0, grp.what.find('\'')) + xm, ctx + ": accepted by the single handler but rejected through the group (" + grp.what + ")", std::to_string(case_idx));
         int nb = 0; for (int b : block_of) nb = std::max(nb, b + 1); if (nb == 1) break;     // one member: creation order is irrelevant
      }
   };
   for_each_spelling(cfg, uses, maxdev, compare);
   // abbreviations disabled: a proper prefix of a long key must be refused by the group exactly as by the single handler
   if (!cfg.abbr && uses.size() == 1 && cfg.args[uses[0].arg].lk.size() >= 3) {
      const Arg& a = cfg.args[uses[0].arg]; std::vector<std::string> words{"--" + a.lk.substr(0, a.lk.size() - 1)};
      if (uses[0].hasval) words.push_back(uses[0].val);
      compare(words, 1);
   }
}

static void duplicate_definitions(uint64_t case_idx) {
   struct Spec { char sk; const char* lk; };
   static const Spec POOL[] = {{'a', ""}, {0, "in"}, {0, "input"}, {'a', "in"}, {'b', "in"}, {'a', "out"}, {'b', "input"}};
   for (auto& s1 : POOL) for (auto& s2 : POOL) for (int create_up_front = 0; create_up_front < 2; ++create_up_front) for (int later_first = 0; later_first < 2; ++later_first) {
      bool conflict = (s1.sk && s1.sk == s2.sk) || (s1.lk[0] && std::string(s1.lk) == s2.lk);
      auto spec = [](const Spec& s) { return s.sk && s.lk[0] ? std::string(1, s.sk) + "," + s.lk : s.sk ? std::string(1, s.sk) : std::string(s.lk); };
      std::ostringstream out, err; Groups::reset(); bool refused = false; std::string what; int v1 = 0, v2 = 0;
      try {
         Groups& g = Groups::instance(out, err, 0);
         if (create_up_front) {
            auto h1 = g.getArgHandler("first"); auto h2 = g.getArgHandler("second");
            if (later_first) { h2->addArgument(spec(s2), destination(v2, "v2"), "d"); h1->addArgument(spec(s1), destination(v1, "v1"), "d"); }
            else { h1->addArgument(spec(s1), destination(v1, "v1"), "d"); h2->addArgument(spec(s2), destination(v2, "v2"), "d"); }
         } else {
            if (later_first) continue;
            auto h1 = g.getArgHandler("first"); h1->addArgument(spec(s1), destination(v1, "v1"), "d");
            auto h2 = g.getArgHandler("second"); h2->addArgument(spec(s2), destination(v2, "v2"), "d");
         }
      } catch (const std::exception& e) { refused = true; what = e.what(); }
      Groups::reset(); ++g_evals; ++g_dupdefs;
      if (vf::verbose()) printf("  members '%s' / '%s' upfront=%d later_first=%d -> %s %s\n", spec(s1).c_str(), spec(s2).c_str(), create_up_front, later_first, refused ? "refused" : "accepted", what.c_str());
      std::string ctx = "member 'first' defines '" + spec(s1) + "', member 'second' defines '" + spec(s2) + "'" + (create_up_front ? ", both handlers created before the definitions" : "") + (later_first ? ", second defined first" : "");
      if (conflict && !refused) vf::violation(std::string("duplicate-key-accepted|") + (create_up_front ? "upfront" : "sequential") + (later_first ? "|later-first" : ""), ctx + ": the same key in two member handlers was not refused", std::to_string(case_idx));
      if (!conflict && refused) vf::violation("distinct-keys-refused", ctx + ": refused (" + what + ")", std::to_string(case_idx));
   }
}

int main(int argc, char** argv) {
   vf::init(argc, argv);
   if (vf::replaying()) { vf::ctx().only = strtoll(vf::replay_case().c_str(), nullptr, 10); vf::ctx().have_replay = false; }
   const bool th = vf::thorough();
   std::vector<RCfg> fams; families(fams, false);
   uint64_t configs = 0;
   if (vf::want_case()) { vf::note("duplicate definitions across members"); duplicate_definitions(vf::current_case()); vf::nontrivial_by_construction(); }
   for (auto& rc0 : fams) for (int abbr = 1; abbr >= 0; --abbr) {
      // abbreviations disabled: all families in the thorough tier, the key-related ones in the quick tier
      if (abbr == 0 && !th && rc0.family != "prefix-keys" && rc0.family != "mandatory" && rc0.family != "requires") continue;
      RCfg rc = rc0; rc.cfg.abbr = abbr != 0; const Cfg& cfg = rc.cfg;
      std::vector<std::vector<int>> parts; partitions(cfg.args.size(), parts);
      for (auto& block_of : parts) {
         bool cross = false;
         for (size_t i = 0; i < cfg.args.size(); ++i) { for (int e : cfg.args[i].excl) if (block_of[e] != block_of[i]) cross = true; for (int e : cfg.args[i].req) if (block_of[e] != block_of[i]) cross = true; }
         for (auto& h : cfg.hcs) for (int m : h.members) if (block_of[m] != block_of[h.members[0]]) cross = true;
         if (cross) { ++g_skipped_cross; continue; }
         if (!vf::want_case()) continue;
         vf::note(rc.family + " " + cfg.text()); ++configs; ++g_partitions; vf::nontrivial_by_construction();
         std::vector<Use> alpha;
         for (size_t i = 0; i < cfg.args.size(); ++i) { if (cfg.args[i].kind == FLAG) { Use u; u.arg = int(i); alpha.push_back(u); } else for (auto& v : rc.dom[i]) { Use u; u.arg = int(i); u.hasval = true; u.val = v; alpha.push_back(u); } }
         for (size_t i = 0; i < cfg.args.size(); ++i) if (cfg.args[i].multival) { Use u; u.arg = int(i); u.hasval = true; u.val = "1"; u.more = {"2", "3"}; alpha.push_back(u); }
         check_line(rc, block_of, {}, 0, vf::current_case());
         // lines of 3 uses also in the quick tier where the ORDER of uses across member handlers matters (multi-value argument, flag, free value)
         const int maxd = vf::deep() ? 4 : (th || rc.family == "multival-positional") ? 3 : 2;
         for (int d = 1; d <= maxd; ++d) {
            vf::Odometer od(std::vector<unsigned>(d, unsigned(alpha.size())));
            while (od.next()) { std::vector<Use> uses; for (int i = 0; i < d; ++i) uses.push_back(alpha[od[i]]); check_line(rc, block_of, uses, d <= 2 ? 1 : 0, vf::current_case()); }
            if (vf::deadline_hit()) break;
         }
         if (configs % 37 == 1) { std::string part; for (int b : block_of) part += std::to_string(b); vf::sample("[" + rc.family + "] " + cfg.text() + " partition " + part + ": all lines of <= " + (th ? "3" : "2") + " uses, group vs single handler"); }
      }
      if (vf::stop_enumeration()) break;
   }
   vf::count("evaluations", g_evals); vf::count("transitions", g_evals); vf::count("states", configs);
   vf::count("partitions", g_partitions); vf::count("partitions_skipped_constraint_crosses_members", g_skipped_cross); vf::count("lines_both_accept", g_both_return); vf::count("lines_both_reject", g_both_throw); vf::count("duplicate_definition_cases", g_dupdefs);
   vf::outcome(g_both_return ? "accepting lines" : "no accepting lines"); vf::outcome(g_both_throw ? "rejecting lines" : "no rejecting lines");
   vf::finish();
   return 0;
}
