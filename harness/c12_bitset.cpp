// C12  DynamicBitset behaves like a growable reference bit vector                  (engine E1 xstate)
//
// state     : a real DynamicBitset, identified by (size n, set of set positions S); ALL states with n <= N are
//             expanded (every such state is reachable: resize + set), so the explored graph is closed for sizes <= N;
//             transitions that lead to a larger bitset are executed and checked, their target is not expanded further.
// alphabet  : set(), set(pos,val), reset(), reset(pos), flip(), flip(pos), [](pos) read/write, test(pos), resize(n,val),
//             &= |= ^= and & | ^ with every bitset of size <= M, <<= >>= << >> by 0..n+2, ~, copy/assign from
//             vector<bool>/bitset<N>; pos in 0..n+2
// oracle    : reference = (minimum size, set of positions) computed by hand-written set arithmetic. After every
//             transition: size() >= required size, test(i) agrees for every i < size(), and the observers count, any,
//             none, all, to_string, to_ulong, forward and reverse iteration agree with the reference content at the
//             implementation's own size; compound operators == binary operators; ASan + libstdc++ assertions.
#include "engine/common.hpp"
#include "celma/container/dynamic_bitset.hpp"
#include <csetjmp>
#include <csignal>
#include <bitset>
#include <set>
#include <sstream>

using celma::container::DynamicBitset;
typedef std::set<size_t> Bits;

static sigjmp_buf g_jb; static volatile int g_armed = 0; static volatile int g_fatal = 0;   // 1 signal, 2 terminate
static void on_sig(int sig) {
   if (!g_armed) { signal(sig, SIG_DFL); raise(sig); return; }
   sigset_t m; sigemptyset(&m); sigaddset(&m, sig); sigprocmask(SIG_UNBLOCK, &m, nullptr);
   g_fatal = sig; siglongjmp(g_jb, 1);
}
static void on_term() { if (g_armed) { g_fatal = 1000; siglongjmp(g_jb, 1); } abort(); }

static size_t N_MAX = 5, M_MAX = 3;
static uint64_t g_trans = 0, g_grew = 0, g_obs = 0;

struct St { size_t n; Bits s; };
static std::string show(size_t n, const Bits& s) { std::string r(n, '0'); for (size_t b : s) if (b < n) r[n - 1 - b] = '1'; return "[" + std::to_string(n) + ":" + r + "]"; }
static DynamicBitset make(const St& st) { std::vector<bool> v(st.n, false); for (size_t b : st.s) v[b] = true; return DynamicBitset(v); }
static St state_of_index(size_t n, uint64_t mask) { St st; st.n = n; for (size_t i = 0; i < n; ++i) if (mask >> i & 1) st.s.insert(i); return st; }

static std::string g_op; static St g_from; static std::string g_replay;
static void viol(const std::string& oracle, const std::string& what) {
   // signature: operation + oracle + relation of the position/size (carried in the op text before the '(')
   std::string opname = g_op.substr(0, g_op.find('#'));
   vf::violation(opname + "|" + oracle, "from " + show(g_from.n, g_from.s) + " " + g_op.substr(g_op.find('#') + 1) + ": " + what, g_replay);
}

// runs f under protection; returns 0 ok, 1 std::exception (what in msg), 2 fatal
template <class F> static int guarded(F&& f, std::string& msg) {
   g_fatal = 0; g_armed = 1; int rc = 0;
   if (sigsetjmp(g_jb, 0) == 0) {
      try { f(); } catch (const std::exception& e) { rc = 1; msg = e.what(); } catch (...) { rc = 2; msg = "non-std exception"; }
   } else { rc = 2; msg = g_fatal == 1000 ? "std::terminate" : g_fatal == SIGABRT ? "abort (sanitizer report or libstdc++ assertion: access outside the bit vector)" : "signal " + std::to_string(g_fatal); }
   g_armed = 0; return rc;
}

// all observers of `d` against the reference content `exp` (positions) at the implementation's own size
static bool check_observers(DynamicBitset& d, const Bits& exp, size_t min_size) {
   std::string msg; bool ok = true; ++g_obs;
   size_t n = 0;
   if (guarded([&] { n = d.size(); }, msg)) { viol("observer", "size() failed: " + msg); return false; }
   if (n < min_size) { viol("growth", "size " + std::to_string(n) + " after the operation, the addressed position needs at least " + std::to_string(min_size)); return false; }
   if (!exp.empty() && *exp.rbegin() >= n) { viol("growth", "size " + std::to_string(n) + " cannot hold the highest expected bit " + std::to_string(*exp.rbegin())); return false; }
   for (size_t i = 0; i < n; ++i) {
      bool b = false; int rc = guarded([&] { b = d.test(i); }, msg);
      if (rc) { viol("content", "test(" + std::to_string(i) + ") failed: " + msg); return false; }
      if (b != (exp.count(i) != 0)) { viol("content", "bit " + std::to_string(i) + " is " + (b ? "set" : "clear") + ", reference says " + (b ? "clear" : "set") + "; content " + d.to_string() + " expected " + show(n, exp)); return false; }
   }
   { bool thrown = false; int rc = guarded([&] { try { d.test(n); } catch (const std::out_of_range&) { thrown = true; } }, msg);
     if (rc || !thrown) { viol("content", "test(size()) must throw std::out_of_range" + (rc ? ": " + msg : std::string())); ok = false; } }
   size_t cnt = 0; bool any = false, none = false, all = false; std::string ts; unsigned long ul = 0; bool ul_thrown = false;
   int rc = guarded([&] { cnt = d.count(); any = d.any(); none = d.none(); all = d.all(); ts = d.to_string(); }, msg);
   if (rc) { viol("observer", "count/any/none/all/to_string failed: " + msg); return false; }
   if (cnt != exp.size()) { viol("observer", "count()=" + std::to_string(cnt) + " expected " + std::to_string(exp.size())); ok = false; }
   if (any != !exp.empty() || none != exp.empty()) { viol("observer", "any()/none() wrong for " + show(n, exp)); ok = false; }
   if (all != (exp.size() == n)) { viol("observer", std::string("all()=") + (all ? "true" : "false") + " for " + show(n, exp)); ok = false; }
   { std::string e(n, '0'); for (size_t b : exp) e[n - 1 - b] = '1'; if (ts != e) { viol("observer", "to_string()=" + ts + " expected " + e); ok = false; } }
   rc = guarded([&] { try { ul = d.to_ulong(); } catch (const std::overflow_error&) { ul_thrown = true; } }, msg);
   if (rc) { viol("observer", "to_ulong failed: " + msg); ok = false; }
   else {
      bool fits = exp.empty() || *exp.rbegin() < 64; unsigned long e = 0; if (fits) for (size_t b : exp) e |= 1ul << b;
      if (fits && (ul_thrown || ul != e)) { viol("observer", "to_ulong()=" + (ul_thrown ? std::string("<overflow_error>") : std::to_string(ul)) + " expected " + std::to_string(e)); ok = false; }
      if (!fits && !ul_thrown) { viol("observer", "to_ulong() must throw overflow_error (bit >= 64 set)"); ok = false; }
   }
   // iteration: ascending / descending set positions, none for empty or all-zero
   auto iter = [&](const char* name, auto&& body, const std::vector<size_t>& e) {
      std::vector<size_t> got; std::string m2;
      int r2 = guarded([&] { body(got); }, m2);
      std::ostringstream g, x; for (size_t v : got) g << v << ' '; for (size_t v : e) x << v << ' ';
      if (r2) { viol("iteration", std::string(name) + " over " + show(n, exp) + " failed: " + m2 + " (expected positions: " + x.str() + ")"); ok = false; }
      else if (got != e) { viol("iteration", std::string(name) + " over " + show(n, exp) + " visited {" + g.str() + "} expected {" + x.str() + "}"); ok = false; }
   };
   std::vector<size_t> asc(exp.begin(), exp.end()), desc(exp.rbegin(), exp.rend());
   size_t cap = n + 3;
   iter("range-for", [&](std::vector<size_t>& got) { for (auto p : d) { got.push_back(p); if (got.size() > cap) break; } }, asc);
   iter("begin()..end() postfix", [&](std::vector<size_t>& got) { for (auto it = d.begin(); it != d.end() && got.size() <= cap; it++) got.push_back(*it); }, asc);
   iter("cbegin()..cend()", [&](std::vector<size_t>& got) { const DynamicBitset& c = d; for (auto it = c.cbegin(); it != c.cend() && got.size() <= cap; ++it) got.push_back(*it); }, asc);
   iter("rbegin()..rend()", [&](std::vector<size_t>& got) { for (auto it = d.rbegin(); it != d.rend() && got.size() <= cap; ++it) got.push_back(*it); }, desc);
   iter("crbegin()..crend() postfix", [&](std::vector<size_t>& got) { const DynamicBitset& c = d; for (auto it = c.crbegin(); it != c.crend() && got.size() <= cap; it++) got.push_back(*it); }, desc);
   return ok;
}

enum Expect { RETURNS, THROWS_OOR, EITHER };
// one mutating transition: f is applied to a fresh copy of the state; exp/min_size describe the reference result
template <class F> static void trans(const std::string& op, const St& from, F&& f, const Bits& exp, size_t min_size, Expect ex = RETURNS) {
   ++g_trans; if ((g_trans & 0xff) == 0) vf::heartbeat();
   g_op = op; g_from = from;
   DynamicBitset d = make(from); std::string msg;
   int rc = guarded([&] { f(d); }, msg);
   if (vf::verbose()) { std::string m2; std::string after; guarded([&] { after = d.to_string(); }, m2); printf("  %s %s -> [%zu:%s] rc=%d %s\n", show(from.n, from.s).c_str(), op.c_str(), d.size(), after.c_str(), rc, msg.c_str()); }
   { std::string fam = op.substr(0, op.find('#')); vf::outcome(fam.substr(0, 40) + (rc == 1 ? " throws" : " -> size " + std::to_string(d.size()))); }
   if (rc == 2) { viol("memory", msg); return; }
   if (rc == 1) { if (ex == RETURNS) viol("exception", "unexpected exception: " + msg); else { check_observers(d, from.s, from.n); } return; }   // a documented throw must leave the content alone
   if (ex == THROWS_OOR) { viol("exception", "documented std::out_of_range was not thrown"); return; }
   if (min_size > from.n) ++g_grew;
   check_observers(d, exp, min_size);
}

static Bits shl(const Bits& s, size_t k) { Bits r; for (size_t b : s) r.insert(b + k); return r; }
static Bits shr(const Bits& s, size_t k) { Bits r; for (size_t b : s) if (b >= k) r.insert(b - k); return r; }

static void expand(const St& st, const std::vector<St>& operands) {
   const size_t n = st.n; const Bits& S = st.s;
   auto P = [&](const char* name, size_t p) { return std::string(name) + (p < n ? "(pos<size)" : p == n ? "(pos==size)" : "(pos>size)") + "#" + name + "(" + std::to_string(p) + ")"; };
   Bits full; for (size_t i = 0; i < n; ++i) full.insert(i);
   Bits compl_; for (size_t i = 0; i < n; ++i) if (!S.count(i)) compl_.insert(i);
   trans("set()#set()", st, [](DynamicBitset& d) { d.set(); }, full, n);
   trans("reset()#reset()", st, [](DynamicBitset& d) { d.reset(); }, Bits(), 0);
   trans("flip()#flip()", st, [](DynamicBitset& d) { d.flip(); }, compl_, n);
   trans("operator~#~", st, [](DynamicBitset& d) { d = ~d; }, compl_, n);
   trans("copy#copy-construct/assign", st, [](DynamicBitset& d) { DynamicBitset c(d); DynamicBitset e(1); e = c; d = e; }, S, n);
   trans("assign vector<bool>#=vector<bool>", st, [&](DynamicBitset& d) { std::vector<bool> v(n + 1, false); v[n] = true; d = v; }, Bits{n}, n + 1);
   trans("assign bitset<3>#=bitset<3>(0b101)", st, [](DynamicBitset& d) { std::bitset<3> b(5); d = b; }, Bits{0, 2}, 3);
   trans("ctor bitset<3>#DynamicBitset(bitset<3>(0b110))", st, [](DynamicBitset& d) { std::bitset<3> b(6); d = DynamicBitset(b); }, Bits{1, 2}, 3);
   for (size_t p = 0; p <= n + 2; ++p) {
      Bits with = S; with.insert(p); Bits without = S; without.erase(p);
      size_t need = std::max(n, p + 1);
      trans(P("set(pos)", p), st, [p](DynamicBitset& d) { d.set(p); }, with, need);
      trans(P("set(pos,false)", p), st, [p](DynamicBitset& d) { d.set(p, false); }, without, need);
      // reset(pos)/flip(pos)/operator[] beyond the size: the class grows "if a given position is greater than the current size";
      // the property needs growth (or a documented throw) for pos == size as well
      trans(P("reset(pos)", p), st, [p](DynamicBitset& d) { d.reset(p); }, without, need, p < n ? RETURNS : EITHER);
      Bits fl = S; if (S.count(p)) fl.erase(p); else fl.insert(p);
      trans(P("flip(pos)", p), st, [p](DynamicBitset& d) { d.flip(p); }, fl, need, p < n ? RETURNS : EITHER);
      trans(P("operator[](pos)=true", p), st, [p](DynamicBitset& d) { d[p] = true; }, with, need, p < n ? RETURNS : EITHER);
      trans(P("operator[](pos)=false", p), st, [p](DynamicBitset& d) { d[p] = false; }, without, need, p < n ? RETURNS : EITHER);
      trans(P("operator[](pos) read", p), st, [p, &S](DynamicBitset& d) { bool b = d[p]; if (b != (S.count(p) != 0)) throw std::logic_error("non-const operator[] returned the wrong bit"); }, S, need, p < n ? RETURNS : EITHER);
      trans(P("operator[](pos) const", p), st, [p, &S, n](DynamicBitset& d) { const DynamicBitset& c = d; bool b = c[p]; if (p < n && b != (S.count(p) != 0)) throw std::logic_error("const operator[] returned the wrong bit"); },
            S, n, p < n ? RETURNS : THROWS_OOR);
      trans(P("test(pos)", p), st, [p](DynamicBitset& d) { d.test(p); }, S, n, p < n ? RETURNS : THROWS_OOR);
   }
   for (size_t m = 0; m <= n + 2; ++m) for (int val = 0; val < 2; ++val) {
      Bits r; for (size_t b : S) if (b < m) r.insert(b); if (val) for (size_t i = n; i < m; ++i) r.insert(i);
      trans(std::string("resize") + (m < n ? "(shrink)" : m == n ? "(same)" : "(grow)") + "#resize(" + std::to_string(m) + "," + (val ? "true" : "false") + ")", st, [m, val](DynamicBitset& d) { d.resize(m, val != 0); }, r, m);
   }
   // shifts: results are compared with the reference AND compound with binary
   for (size_t k = 0; k <= n + 2; ++k) {
      std::string rel = k == 0 ? "(0)" : k < n ? "(<size)" : k == n ? "(==size)" : "(>size)";
      Bits l = shl(S, k), r = shr(S, k);
      size_t lneed = l.empty() ? 0 : *l.rbegin() + 1;
      trans("operator<<=" + rel + "#<<=" + std::to_string(k), st, [k](DynamicBitset& d) { d <<= k; }, l, lneed);
      trans("operator<<" + rel + "#<<" + std::to_string(k), st, [k](DynamicBitset& d) { d = d << k; }, l, lneed);
      trans("operator>>=" + rel + "#>>=" + std::to_string(k), st, [k](DynamicBitset& d) { d >>= k; }, r, 0);
      trans("operator>>" + rel + "#>>" + std::to_string(k), st, [k](DynamicBitset& d) { d = d >> k; }, r, 0);
      // compound == binary (content; and operator== when the sizes agree)
      g_op = "compound-vs-binary shift" + rel + "#shift by " + std::to_string(k); g_from = st; std::string msg;
      DynamicBitset a = make(st), b = make(st), c = make(st), e = make(st); bool eq1 = true, eq2 = true; std::string sa, sb, sc, se;
      int rc = guarded([&] { a <<= k; DynamicBitset t = b << k; sa = a.to_string(); sb = t.to_string(); if (a.size() == t.size()) eq1 = (a == t);
                             c >>= k; DynamicBitset u = e >> k; sc = c.to_string(); se = u.to_string(); if (c.size() == u.size()) eq2 = (c == u); }, msg);
      ++g_trans;
      if (rc == 0) {
         auto strip = [](std::string s) { size_t i = s.find('1'); return i == std::string::npos ? std::string() : s.substr(i); };
         if (strip(sa) != strip(sb) || !eq1) viol("compound", "<<= gives " + sa + " but << gives " + sb);
         if (strip(sc) != strip(se) || !eq2) viol("compound", ">>= gives " + sc + " but >> gives " + se);
      }
   }
   // binary operators with every operand
   for (const St& o : operands) {
      Bits a, orr = S, x; for (size_t b : S) if (o.s.count(b)) a.insert(b);
      for (size_t b : o.s) orr.insert(b);
      for (size_t b : S) if (!o.s.count(b)) x.insert(b); for (size_t b : o.s) if (!S.count(b)) x.insert(b);
      std::string rel = o.n < n ? "(smaller)" : o.n == n ? "(same size)" : "(larger)"; std::string os = show(o.n, o.s);
      size_t mx = std::max(n, o.n);
      trans("operator&=" + rel + "#&= " + os, st, [&o](DynamicBitset& d) { d &= make(o); }, a, 0);
      trans("operator|=" + rel + "#|= " + os, st, [&o](DynamicBitset& d) { d |= make(o); }, orr, mx);
      trans("operator^=" + rel + "#^= " + os, st, [&o](DynamicBitset& d) { d ^= make(o); }, x, mx);
      trans("operator&" + rel + "#& " + os, st, [&o](DynamicBitset& d) { d = d & make(o); }, a, 0);
      trans("operator|" + rel + "#| " + os, st, [&o](DynamicBitset& d) { d = d | make(o); }, orr, mx);
      trans("operator^" + rel + "#^ " + os, st, [&o](DynamicBitset& d) { d = d ^ make(o); }, x, mx);
      // equality between bitsets of equal size
      if (o.n == n) {
         g_op = "operator==#== " + os; g_from = st; std::string msg; bool eq = false; ++g_trans;
         int rc = guarded([&] { eq = (make(st) == make(o)); }, msg);
         if (rc) viol("observer", "operator== failed: " + msg); else if (eq != (S == o.s)) viol("observer", std::string("operator== returned ") + (eq ? "true" : "false"));
      }
   }
}

static void to_ulong_family() {
   // single bits and pairs around the 63/64 boundary
   for (size_t hi = 60; hi <= 66; ++hi) for (int low = 0; low < 2; ++low) {
      St st; st.n = hi + 1; st.s.insert(hi); if (low) st.s.insert(0);
      g_op = "to_ulong boundary#bit " + std::to_string(hi) + (low ? " and bit 0" : ""); g_from = st; ++g_trans;
      DynamicBitset d = make(st);
      check_observers(d, st.s, st.n);
   }
}

int main(int argc, char** argv) {
   vf::init(argc, argv);
   signal(SIGABRT, on_sig); signal(SIGSEGV, on_sig); signal(SIGBUS, on_sig); std::set_terminate(on_term);
   if (vf::thorough()) { N_MAX = 9; M_MAX = 6; } else { N_MAX = 7; M_MAX = 5; }
   std::vector<St> operands;
   for (size_t n = 0; n <= M_MAX; ++n) for (uint64_t m = 0; m < (1ull << n); ++m) operands.push_back(state_of_index(n, m));
   std::string rp = vf::replay_case(); size_t rn = 0; unsigned long long rm = 0; bool rep = vf::replaying() && sscanf(rp.c_str(), "n=%zu mask=%llu", &rn, &rm) == 2;
   uint64_t states = 0;
   for (size_t n = 0; n <= N_MAX; ++n) for (uint64_t m = 0; m < (1ull << n); ++m) {
      if (rep) { if (n != rn || m != rm) continue; }
      else if (!vf::want_case()) continue;
      St st = state_of_index(n, m);
      g_replay = "n=" + std::to_string(n) + " mask=" + std::to_string(m);
      vf::note(show(st.n, st.s));
      g_op = "state#observers of the state itself"; g_from = st;
      { DynamicBitset d = make(st); check_observers(d, st.s, st.n); }
      expand(st, operands);
      ++states; vf::nontrivial(g_replay);
      if (n >= 3 && (m % 7) == 3) vf::sample("state " + show(st.n, st.s) + ": all operations x positions 0.." + std::to_string(n + 2) + " x " + std::to_string(operands.size()) + " operands x shifts 0.." + std::to_string(n + 2));
   }
   if (vf::replaying()) { if (rp == "ulong") { g_replay = "ulong"; to_ulong_family(); } }
   else if (vf::want_case()) { g_replay = "ulong"; vf::note("to_ulong boundary"); to_ulong_family(); }
   vf::count("states", states); vf::count("transitions", g_trans); vf::count("evaluations", g_trans);
   vf::count("transitions_that_grow", g_grew); vf::count("observer_sweeps", g_obs);
   vf::finish();
   return 0;
}
