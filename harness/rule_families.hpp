// Rule-matrix configurations shared by C02/C03 (c02_rules.cpp) and C08 (c08_groups.cpp)
#pragma once
#include "harness/args.hpp"
namespace rules {
using namespace hc;
struct RCfg { Cfg cfg; std::vector<std::vector<std::string>> dom; std::string family; };   // dom[i]: value texts of argument i ("" element list for flags)

static Arg mk(char sk, const char* lk, Kind k, int keykind = 2) { Arg a; if (keykind != 1) a.sk = sk; if (keykind != 0) a.lk = lk; a.kind = k; return a; }
static Check ck(int type, double a = 0, double b = 0, const std::string& s = "") { Check c; c.type = type; c.a = a; c.b = b; c.s = s; return c; }
static std::vector<std::string> generic_dom(Kind k) {
   switch (k) { case FLAG: return {}; case INT: return {"5", "6"}; case DBL: return {"2.5"}; case STR: return {"ab", "cd"}; case OPTINT: return {"5"}; case VECINT: return {"5", "4,6"}; case VECSTR: return {"ab", "ab,cd"}; }
   return {};
}

static void families(std::vector<RCfg>& out, bool thorough) {
   auto push = [&](const std::string& fam, Cfg c, std::vector<std::vector<std::string>> dom) { RCfg r; r.cfg = c; r.dom = dom; r.family = fam; out.push_back(r); };
   const Arg flagB = mk('b', "beta", FLAG);
   // F1 mandatory
   for (Kind k : {INT, STR, VECINT, OPTINT}) { Cfg c; Arg a = mk('a', "alpha", k); a.mandatory = true; c.args = {a, flagB}; push("mandatory", c, {generic_dom(k), {}}); }
   // F2 checks, F9 conversion
   { struct CD { Kind k; Check c; std::vector<std::string> dom; };
     std::vector<CD> cds = {
        {INT, ck(1, 3), {"2", "3", "4"}}, {INT, ck(2, 7), {"6", "7", "8"}}, {INT, ck(3, 3, 7), {"2", "3", "6", "7"}},
        {DBL, ck(1, 1.5), {"1.25", "1.5"}}, {DBL, ck(2, 7), {"6.75", "7"}}, {DBL, ck(3, 1.5, 7), {"1.25", "1.5", "7"}},
        {OPTINT, ck(3, 3, 7), {"2", "3", "7"}},
        {STR, ck(4, 0, 0, "a,b"), {"a", "b", "c", "A", "ab"}}, {STR, ck(8, 0, 0, "ab,Cde"), {"ab", "AB", "a", "cDE", "cd", "C", "abc", "x"}}, {STR, ck(5, 2), {"a", "ab"}}, {STR, ck(6, 3), {"abc", "abcd"}}, {STR, ck(7, 0, 0, "[ab]+"), {"ab", "abc", "a"}},
        {VECINT, ck(3, 3, 7), {"3", "3,6", "3,7", "2"}}, {VECSTR, ck(4, 0, 0, "a,b"), {"a,b", "a,c"}}, {VECSTR, ck(6, 2), {"ab,c", "ab,cde"}} };
     for (auto& cd : cds) { Cfg c; Arg a = mk('a', "alpha", cd.k); a.checks = {cd.c}; c.args = {a, flagB}; push("check", c, {cd.dom, {}}); }
     // two checks on one argument are and-ed
     { Cfg c; Arg a = mk('a', "alpha", INT); a.checks = {ck(1, 3), ck(2, 7)}; c.args = {a, flagB}; push("check", c, {{"2", "3", "6", "7"}, {}}); }
     { Cfg c; Arg a = mk('a', "alpha", STR); a.checks = {ck(5, 2), ck(6, 3)}; c.args = {a, flagB}; push("check", c, {{"a", "ab", "abc", "abcd"}, {}}); }
     for (Kind k : {INT, DBL, OPTINT, VECINT}) { Cfg c; c.args = {mk('a', "alpha", k), flagB};
        std::vector<std::string> d = k == DBL ? std::vector<std::string>{"2.5", "x", "1.5.2"} : k == VECINT ? std::vector<std::string>{"5", "4,x", "1.5", "99999999999"} : std::vector<std::string>{"5", "x", "1.5", "99999999999", "5x"};
        push("convert", c, {d, {}}); } }
   // F3 cardinality
   for (Kind k : {FLAG, INT, STR, OPTINT}) { Cfg c; c.args = {mk('a', "alpha", k), flagB}; push("cardinality", c, {generic_dom(k), {}}); }
   for (int card = 1; card <= 4; ++card) for (Kind k : {VECINT, VECSTR}) { Cfg c; Arg a = mk('a', "alpha", k); a.card = card; a.cardA = card == 3 ? 1 : 2; a.cardB = 2; c.args = {a, flagB};
      push("cardinality", c, {k == VECINT ? std::vector<std::string>{"1", "1,2", "1,2,3"} : std::vector<std::string>{"a", "a,b", "a,b,c"}, {}}); }
   { Cfg c; Arg a = mk('a', "alpha", INT); a.card = 2; a.cardA = 2; c.args = {a, flagB}; push("cardinality", c, {{"5", "6"}, {}}); }
   // F4 excludes / F5 requires: every key kind of the constraining argument and of the partner
   for (int req = 0; req < 2; ++req) for (Kind k0 : {FLAG, INT}) for (Kind k1 : {FLAG, INT, VECINT}) for (int kk0 = 0; kk0 < 3; ++kk0) for (int kk1 = 0; kk1 < 3; ++kk1) {
      if (!thorough && kk0 != 2 && kk1 != 2) continue;
      Cfg c; Arg a = mk('a', "alpha", k0, kk0), b = mk('b', "beta", k1, kk1), g = mk('g', "gamma", FLAG);
      if (req) a.req = {1}; else a.excl = {1};
      if (kk1 == 2 && kk0 == 2 && k1 != VECINT) { a.cspell = (k0 == FLAG ? 1 : 2); }      // partner with both keys named by one of them
      c.args = {a, b, g}; push(req ? "requires" : "excludes", c, {generic_dom(k0).empty() ? std::vector<std::string>{} : std::vector<std::string>{"5"}, generic_dom(k1).empty() ? std::vector<std::string>{} : std::vector<std::string>{generic_dom(k1)[0]}, {}});
   }
   // F4+F5 on the SAME partner: g is required by a and excluded by b (both orders of definition), and a partner that is target of two
   // requirements / two exclusions: every pending rule for a partner must be kept
   for (int variant = 0; variant < 4; ++variant) for (Kind kg : {FLAG, INT}) {
      Cfg c; Arg a = mk('a', "alpha", FLAG), b = mk('b', "beta", FLAG), g = mk('g', "gamma", kg);
      if (variant == 0) { a.req = {2}; b.excl = {2}; } else if (variant == 1) { a.excl = {2}; b.req = {2}; } else if (variant == 2) { a.req = {2}; b.req = {2}; } else { a.excl = {2}; b.excl = {2}; }
      c.args = {a, b, g}; push("same-partner", c, {{}, {}, kg == FLAG ? std::vector<std::string>{} : std::vector<std::string>{"5"}});
      // the same with the partner named differently by the two constraining arguments (short key by one, long key by the other)
      for (int sw = 0; sw < 2; ++sw) { Cfg c2 = c; c2.args[0].cspell = sw ? 2 : 1; c2.args[1].cspell = sw ? 1 : 2; push("same-partner", c2, {{}, {}, kg == FLAG ? std::vector<std::string>{} : std::vector<std::string>{"5"}}); }
   }
   // F6 all_of / any_of / one_of
   for (int t = 1; t <= 3; ++t) for (Kind k0 : {FLAG, INT}) for (Kind k1 : {FLAG, STR}) for (int kk = 0; kk < 3; ++kk) {
      Cfg c; c.args = {mk('a', "alpha", k0, kk), mk('b', "beta", k1, 2), mk('g', "gamma", FLAG)}; HConstraint h; h.type = t; h.members = {0, 1}; c.hcs = {h};
      push(t == 1 ? "all_of" : t == 2 ? "any_of" : "one_of", c, {k0 == FLAG ? std::vector<std::string>{} : std::vector<std::string>{"5"}, k1 == FLAG ? std::vector<std::string>{} : std::vector<std::string>{"ab"}, {}});
   }
   { Cfg c; c.args = {mk('a', "alpha", FLAG), mk('b', "beta", FLAG), mk('g', "gamma", INT)}; HConstraint h; h.type = 3; h.members = {0, 1, 2}; c.hcs = {h}; push("one_of", c, {{}, {}, {"5"}}); }
   // F7 differ / disjoint
   { Cfg c; c.args = {mk('a', "alpha", INT), mk('b', "beta", INT), mk('g', "gamma", FLAG)}; HConstraint h; h.type = 4; h.members = {0, 1}; c.hcs = {h}; push("differ", c, {{"5", "6", "-777"}, {"5", "7", "-777"}, {}}); }      // -777 = initial content of every int destination: an UNUSED partner holds it
   { Cfg c; c.args = {mk('a', "alpha", STR), mk('b', "beta", STR), mk('g', "gamma", FLAG)}; HConstraint h; h.type = 4; h.members = {0, 1}; c.hcs = {h}; push("differ", c, {{"x", "y", "<init>"}, {"x", "z", "<init>"}, {}}); }      // "<init>" = initial content of every string destination
   { Cfg c; Arg a = mk('a', "alpha", VECINT), b = mk('b', "beta", VECINT); c.args = {a, b, mk('g', "gamma", FLAG)}; HConstraint h; h.type = 5; h.members = {0, 1}; c.hcs = {h}; push("disjoint", c, {{"1,2", "3"}, {"2,4", "5,1", "6"}, {}}); }
   // F8 deprecated
   { Cfg c; Arg a = mk('a', "alpha", INT); a.deprecated = true; c.args = {a, flagB}; push("deprecated", c, {{"5"}, {}}); }
   { Cfg c; Arg a = mk('a', "alpha", FLAG); a.deprecated = true; c.args = {a, flagB}; push("deprecated", c, {{}, {}}); }
   // keys with a shared prefix (exact key vs abbreviation, ambiguity) under rules
   { Cfg c; Arg a = mk('a', "alpha", INT), b = mk('p', "alphabet", INT), g = mk('g', "al", FLAG); a.checks = {ck(3, 3, 7)}; c.args = {b, a, g}; push("prefix-keys", c, {{"5"}, {"2", "3"}, {}}); }
   // multi-value argument + positional argument: free values go to the multi-value argument only directly after it
   for (Kind pk : {STR, INT}) { Cfg c; Arg n = mk('n', "numbers", VECINT); n.multival = true; Arg pos; pos.kind = pk; c.args = {n, mk('v', "verbose", FLAG), pos, mk('w', "width", INT)};
      push("multival-positional", c, {{"1", "1,2"}, {}, {pk == STR ? "file.dat" : "77"}, {"5"}}); }
   // pairs of families on disjoint arguments (thorough)
   if (thorough) {
      size_t n = out.size();
      for (size_t i = 0; i < n; i += 3) for (size_t j = i + 1; j < n; j += 5) {
         if (out[i].family == out[j].family || out[i].family == "prefix-keys" || out[j].family == "prefix-keys") continue;
         RCfg r; r.family = out[i].family + "+" + out[j].family; r.cfg = out[i].cfg; r.dom = out[i].dom; size_t off = r.cfg.args.size();
         if (out[j].cfg.args.size() > 6) continue;
         // rename the second configuration's arguments: d,e,f,k,z,y (never q: '-q' and '--quebec' are the unknown keys of the surface mutations)
         static const char sk[] = {'d', 'e', 'f', 'k', 'z', 'y'}; static const char* lk[] = {"delta", "epsilon", "phi", "kappa", "zeta", "ypsilon"};
         for (size_t a = 0; a < out[j].cfg.args.size(); ++a) { Arg x = out[j].cfg.args[a]; if (x.sk) x.sk = sk[a]; if (!x.lk.empty()) x.lk = lk[a]; for (int& e : x.excl) e += int(off); for (int& e : x.req) e += int(off); r.cfg.args.push_back(x); r.dom.push_back(out[j].dom[a]); }
         for (auto h : out[j].cfg.hcs) { for (int& m : h.members) m += int(off); r.cfg.hcs.push_back(h); }
         out.push_back(r);
      }
   }
}

} // namespace rules
