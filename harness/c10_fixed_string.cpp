// C10 / C11  FixedString<L>                                                     (engine E1 xstate)
//
// Explicit-state search over REAL FixedString<L> objects with tiny capacities. A state is the complete byte image of
// the object (content, length AND the stale bytes behind the terminator); a transition is one public operation with
// one argument tuple. Every state that is reached by a clean transition is expanded with the full alphabet, so the
// search closes (fixed point), i.e. the result holds for operation sequences of any length over the alphabet.
//
//   --opt prop=C10 : memory safety + well-formedness oracle, ALL argument tuples (in and out of the documented domain)
//   --opt prop=C11 : equivalence with std::string cut at L, in-domain argument tuples only
//
// The object under test lives inside one heap block between two ASan-poisoned guard zones; sources passed as
// const char* live in exact-size heap blocks. ASan runs in recover mode: __asan_on_error() raises a flag that is
// inspected after every transition (a faulty transition is reported, its successor state is not explored).
#include "engine/common.hpp"
#include "celma/common/fixed_string.hpp"
#include <sanitizer/asan_interface.h>
#include <string>
#include <vector>
#include <deque>
#include <unordered_map>
#include <cstdarg>

using celma::common::FixedString;
static const size_t NPOS = std::string::npos;
static const size_t HUGE_ = ~size_t(0) / 2;

// This source is compiled once per capacity (-DVF_CAP=<L> -DVF_THIN=<0|1>, in parallel) and once as the main program.
#include <csetjmp>
#include <csignal>
#ifndef VF_CAP
volatile int g_asan = 0;
bool g_discovering = false;     // during discovery nothing is reported (the sharded pass reports with the right case index)
bool g_c11 = false;             // which property's oracle reports
int64_t g_replay_t = -1;        // replay: only this transition number of the selected (L,state,family)
sigjmp_buf g_jb; volatile int g_jb_armed = 0;
extern "C" void __asan_on_error() { g_asan = 1; }
// The compiler-inserted shadow checks call __asan_report_{load,store}N_noabort(addr) when they fail. libasan's own
// versions print a report, report every program counter only ONCE and terminate the process after 25 distinct ones -
// useless for a search that must classify every single transition. The harness executable therefore defines them
// itself (its definitions take precedence over the shared libasan): flag the transition and return.
#include <dlfcn.h>
static void bad_access(const char* what, unsigned long addr, unsigned long n) {
   g_asan = 1;
   if (vf::verbose()) {               // replay: additionally let the real runtime print its full report (once per program counter)
      printf("     [asan] invalid %s of %lu byte(s) at %#lx\n", what, n, addr); fflush(stdout);
      static int shown = 0;
      if (shown++ < 3) {
         typedef void (*rep_t)(unsigned long, unsigned long);
         rep_t real = (rep_t)dlsym(RTLD_NEXT, what[0] == 'l' ? "__asan_report_load_n_noabort" : "__asan_report_store_n_noabort");
         if (real) real(addr, n);
      }
   }
}
#define REP(N) extern "C" void __asan_report_load##N##_noabort(unsigned long a) { bad_access("load", a, N); } \
               extern "C" void __asan_report_store##N##_noabort(unsigned long a) { bad_access("store", a, N); }
REP(1) REP(2) REP(4) REP(8) REP(16)
extern "C" void __asan_report_load_n_noabort(unsigned long a, unsigned long n) { bad_access("load", a, n); }
extern "C" void __asan_report_store_n_noabort(unsigned long a, unsigned long n) { bad_access("store", a, n); }
// mem* calls are validated BEFORE they run: a copy that would touch poisoned memory (guard zones, red zones of
// exact-size blocks) or has an absurd ("negative") size is flagged and skipped, so a faulty transition can neither
// corrupt the harness nor kill the sanitizer runtime (its negative-size-param report is fatal even in recover mode).
#include <dlfcn.h>
typedef void* (*mem3_t)(void*, const void*, size_t);
typedef void* (*memset_t)(void*, int, size_t);
static mem3_t real_memcpy, real_memmove; static memset_t real_memset;
static bool bad_range(const void* p, size_t n) {
   if (n > (size_t(1) << 32)) { g_asan = 4; return true; }
   if (n != 0 && __asan_region_is_poisoned(const_cast<void*>(p), n)) { g_asan = 1; return true; }
   return false;
}
extern "C" void* memcpy(void* d, const void* s, size_t n) {
   if (bad_range(d, n) || bad_range(s, n)) return d;
   if (!real_memcpy) { real_memcpy = (mem3_t)dlsym(RTLD_NEXT, "memcpy"); if (!real_memcpy) { char* dd = (char*)d; const char* ss = (const char*)s; while (n--) *dd++ = *ss++; return d; } }
   return real_memcpy(d, s, n);
}
extern "C" void* memmove(void* d, const void* s, size_t n) {
   if (bad_range(d, n) || bad_range(s, n)) return d;
   if (!real_memmove) real_memmove = (mem3_t)dlsym(RTLD_NEXT, "memmove");
   return real_memmove(d, s, n);
}
typedef int (*memcmp_t)(const void*, const void*, size_t);
static memcmp_t real_memcmp;
extern "C" int memcmp(const void* a, const void* b, size_t n) {
   if (bad_range(a, n) || bad_range(b, n)) return 0;
   if (!real_memcmp) real_memcmp = (memcmp_t)dlsym(RTLD_NEXT, "memcmp");
   return real_memcmp(a, b, n);
}
extern "C" void* memset(void* d, int c, size_t n) {
   if (bad_range(d, n)) return d;
   if (!real_memset) real_memset = (memset_t)dlsym(RTLD_NEXT, "memset");
   return real_memset(d, c, n);
}
#else
extern volatile int g_asan; extern bool g_discovering, g_c11; extern int64_t g_replay_t;
extern sigjmp_buf g_jb; extern volatile int g_jb_armed;
#endif

static std::string num(size_t v) {
   if (v == NPOS) return "npos"; if (v == NPOS - 1) return "npos-1"; if (v == NPOS - 2) return "npos-2";
   if (v == HUGE_) return "SIZE_MAX/2"; return std::to_string(v);
}

template <size_t S> struct Guarded {             // a FixedString<S> between two poisoned zones inside ONE heap block
   // In recover mode a faulty store IS performed after it has been reported. The zones are larger than any offset a
   // corrupted 8/16-bit length can produce, so such a store stays inside this block and cannot damage the allocator.
   static constexpr size_t Z = 66000;
   char* base; FixedString<S>* p;
   Guarded() {
      size_t sz = sizeof(FixedString<S>);
      base = static_cast<char*>(malloc(Z + sz + Z));
      p = new (base + Z) FixedString<S>();
      __asan_poison_memory_region(base, Z);
      __asan_poison_memory_region(base + Z + sz, Z);
   }
   Guarded(const Guarded&) = delete;
   ~Guarded() { __asan_unpoison_memory_region(base, Z + sizeof(FixedString<S>) + Z); free(base); }
};

struct CStr {                                    // exact-size heap copy of a C string
   char* p; size_t n;
   explicit CStr(const std::string& s) : n(s.size()) { p = static_cast<char*>(malloc(n + 1)); memcpy(p, s.c_str(), n + 1); }
   CStr(const CStr&) = delete;
   ~CStr() { free(p); }
};

static std::vector<std::string> all_strings(size_t maxlen) {     // over {a,b}, shortest first
   std::vector<std::string> out{""};
   size_t start = 0;
   for (size_t l = 1; l <= maxlen; ++l) {
      size_t end = out.size();
      for (size_t i = start; i < end; ++i) { out.push_back(out[i] + "a"); out.push_back(out[i] + "b"); }
      start = end;
   }
   return out;
}

template <size_t L> struct X {
   using FS = FixedString<L>;
   static constexpr size_t SZ = sizeof(FS);
   static constexpr size_t S1 = L + 2, S2 = L, S3 = (L > 1 ? L - 1 : 1);
   typedef std::string State;                    // raw bytes of the object

   Guarded<L> box, other;                        // object under test, second object (swap, find(FixedString), ==)
   FS& fs; FS& oth;
   bool thin;                                    // thinned argument domains (large capacities)
   std::vector<size_t> P, P2, CNT;               // positions/counts in the object, in the source, small counts
   std::vector<std::string> SRC;                 // source texts
   std::vector<CStr*> CS;                        // the same as exact-size C strings
   // --- search state
   struct StateVec : std::vector<State> { size_t size_at_entry = 0; };
   StateVec states; std::unordered_map<State, size_t> index;
   State cur; std::string ref;                   // state being expanded, its content
   size_t len = 0;                               // its length
   uint64_t tno = 0;                             // transition number inside the current (state, family)
   size_t cur_state = 0; int cur_fam = 0;
   uint64_t transitions = 0, indom_checked = 0, hit_capacity = 0, changed = 0;
   // --- description of the transition in flight (for signatures and reports; no allocation on the hot path)
   const char* opname = ""; int nargs = 0; char akind[8]; size_t aval[8]; const std::string* asrc = nullptr; char ach = 0;

   // mode 0: full domains, 1: thinned (large capacities), 2: discovery (small domains, only used to find the state set)
   X(int mode) : fs(*box.p), oth(*other.p), thin(mode != 0) {
      if (mode == 2 && L <= 5) {
         for (size_t i = 0; i <= L + 1; ++i) P.push_back(i);
         P.push_back(NPOS);
         P2 = {0, 1, NPOS}; CNT = {0, 1, L};
         SRC = all_strings(L + 1);
      } else if (mode == 0) {
         for (size_t i = 0; i <= L + 2; ++i) P.push_back(i);
         P.push_back(2 * L + 3); P.push_back(HUGE_); P.push_back(NPOS - 2); P.push_back(NPOS - 1); P.push_back(NPOS);
         for (size_t i = 0; i <= L + 2; ++i) P2.push_back(i);
         P2.push_back(NPOS);
         for (size_t i = 0; i <= L + 2; ++i) CNT.push_back(i);
         SRC = all_strings(L + 2);
      } else {
         std::set<size_t> s{0, 1, 2, L / 2, L - 2, L - 1, L, L + 1, L + 2, 2 * L + 3, HUGE_, NPOS - 1, NPOS};
         P.assign(s.begin(), s.end());
         std::set<size_t> s2{0, 1, L - 1, L, L + 1, L + 2, NPOS};
         P2.assign(s2.begin(), s2.end());
         std::set<size_t> s3{0, 1, 2, L - 1, L, L + 1, L + 2};
         CNT.assign(s3.begin(), s3.end());
         std::set<std::string> t;
         for (size_t n : {size_t(0), size_t(1), size_t(2), L / 2, L - 1, L, L + 1, L + 2}) {
            t.insert(std::string(n, 'a')); if (n > 0) { std::string x(n, 'a'); x[n - 1] = 'b'; t.insert(x); x[0] = 'b'; t.insert(x); }
         }
         SRC.assign(t.begin(), t.end());
      }
      for (auto& s : SRC) CS.push_back(new CStr(s));
   }
   ~X() { for (auto* c : CS) delete c; }

   // iterator offsets 0..len: all of them, or (thinned domains, large capacities) only the neighbourhood of both ends and the middle
   std::vector<size_t> offsets(size_t upto) const {
      std::vector<size_t> v;
      if (!thin || upto <= 12) { for (size_t k = 0; k <= upto; ++k) v.push_back(k); return v; }
      std::set<size_t> s{0, 1, 2, upto / 2, upto - 2, upto - 1, upto}; v.assign(s.begin(), s.end()); return v;
   }
   // ---------------------------------------------------------------- transition protocol
   void A(const char* op, std::initializer_list<std::pair<char, size_t>> l, const std::string* src = nullptr, char ch = 0) {
      opname = op; nargs = 0; asrc = src; ach = ch;
      for (auto& kv : l) { akind[nargs] = kv.first; aval[nargs] = kv.second; ++nargs; }
   }
   // backward searches: the class treats a start position at/after the end (other than npos) as "not found" (pinned by
   // the in-tree test: rfind('l', 20) == npos), so only valid positions and npos are inside the documented domain
   bool bw(size_t p) const { return p < len || p == NPOS; }
   void setoth(const State& os) { memcpy(static_cast<void*>(&oth), os.data(), SZ); }
   bool begin() {                                // restores the state; false = transition filtered out by a replay
      ++tno;
      if (g_replay_t >= 0 && int64_t(tno) != g_replay_t) return false;
      if (vf::ctx().capped) return false;                                                        // deadline passed: the remaining tuples are skipped (the evidence says capped)
      if ((transitions & 0xfffff) == 0xfffff && vf::deadline_hit()) return false;
      memcpy(static_cast<void*>(&fs), cur.data(), SZ);
      g_asan = 0; ++transitions;
      if ((transitions & 0x3ff) == 0) vf::heartbeat();
      return true;
   }
   std::string describe() const {
      std::string d = std::string("FixedString<") + std::to_string(L) + ">(\"" + ref + "\")." + opname + "(";
      for (int i = 0; i < nargs; ++i) { if (i) d += ", "; d += akind[i]; d += "="; d += num(aval[i]); }
      if (asrc) { d += std::string(nargs ? ", " : "") + "src=\"" + *asrc + "\""; }
      if (ach) { d += std::string((nargs || asrc) ? ", " : "") + "ch='" + ach + "'"; }
      return d + ")";
   }
   std::string relation() const {                // normalised argument relation: what the arguments are relative to length and capacity
      std::string r; size_t base = 0, qbase = 0, slen = asrc ? asrc->size() : 0;
      auto big = [](size_t v) -> const char* { return v == NPOS ? "npos" : v >= NPOS - 2 ? "wrap" : v >= HUGE_ ? "huge" : nullptr; };
      for (int i = 0; i < nargs; ++i) {
         size_t v = aval[i]; const char* b = big(v); r += akind[i]; r += ':';
         switch (akind[i]) {
         case 'p': base = v; r += b ? b : v < len ? "<len" : v == len ? "=len" : v <= L ? "<=L" : ">L"; break;
         case 'c': r += b ? b : v == 0 ? "0" : base + v < len ? "inside" : base + v == len ? "toend" : "beyond"; break;
         case 'n': r += b ? b : v == 0 ? "0" : len + v <= L ? "fits" : "over"; break;
         case 'q': qbase = v; r += b ? b : v < slen ? "<src" : v == slen ? "=src" : ">src"; break;
         case 'd': r += b ? b : v == 0 ? "0" : qbase + v <= slen ? "insrc" : "beyondsrc"; break;
         default: r += b ? b : std::to_string(v);
         }
         r += ' ';
      }
      if (asrc) r += slen == 0 ? "src:empty" : len + slen <= L ? "src:fits" : "src:over";
      r += len == 0 ? " this:empty" : len == L ? " this:full" : " this:part";
      return r;
   }
   std::string replay_text() const {
      return "L=" + std::to_string(L) + " state=" + std::to_string(cur_state) + " fam=" + std::to_string(cur_fam) + " t=" + std::to_string(tno);
   }
   void report(const char* oracle, const std::string& what) {
      if (g_discovering) return;
      std::string sig = std::string(opname) + "|" + oracle + "|" + relation();
      vf::violation(sig, describe() + ": " + what, replay_text());
   }
   // C10 oracle on the object after an operation. returns true when the object is intact and well-formed
   bool wellformed(bool report_it) {
      bool ok = true;
      if (g_asan) { int k = g_asan; ok = false; g_asan = 0;
         if (report_it) report("memory", k == 3 ? "SIGSEGV/SIGBUS: wild access far outside the object" : k == 4 ? "memcpy/memmove/memset with an absurd (wrapped-around) size" : k == 5 ? "an exception escaped the (noexcept) operation: std::terminate" : "AddressSanitizer reported an invalid access (outside the object / its arguments)");
         if (k == 3 || k == 5) return false; }
      size_t l = fs.mLength;
      if (l > L) { ok = false; if (report_it) report("wellformed", "length " + std::to_string(l) + " > capacity"); }
      else if (fs.mString[l] != '\0') { ok = false; if (report_it) report("wellformed", "no NUL at position length()=" + std::to_string(l)); }
      else if (strnlen(fs.mString, L + 1) != l) { ok = false; if (report_it) report("wellformed", "strlen(c_str())=" + std::to_string(strnlen(fs.mString, L + 1)) + " != length()=" + std::to_string(l)); }
      else {
         // every byte of the content must come from the object or from an argument: all of those are over {a,b} (digits for "%d").
         // Needed because an over-read of a std::string source stays inside its small-string buffer, where ASan cannot see it.
         for (size_t i = 0; i < l; ++i) { unsigned char c = fs.mString[i];
            if (c != 'a' && c != 'b' && !(c >= '0' && c <= '9')) { ok = false; if (report_it) report("memory", "content contains byte 0x" + std::to_string(c) + " that was never passed in: read outside the arguments (over-read of a source)"); break; } }
      }
      return ok;
   }
   void successor() {
      State s(reinterpret_cast<const char*>(&fs), SZ);
      if (s != cur) ++changed;
      if (fs.mLength == L) ++hit_capacity;
      { static std::set<std::pair<const char*, int>> seen; int cls = (s != cur ? 1 : 0) + (fs.mLength == L ? 2 : 0);
        if (seen.insert({opname, cls}).second) vf::outcome(std::string(opname) + (cls & 1 ? " changes" : " keeps") + " the content" + (cls & 2 ? ", string full" : "")); }
      if (!seeds_only && index.find(s) == index.end()) { index.emplace(s, states.size()); states.push_back(s); }      // seeds-only (capacity 255/256): successors are checked, not stored
   }
   // after a mutator. indom: the std::string counterpart is defined; refop applies it to the reference
   template <class R> void end_mut(bool indom, R&& refop) {
      bool ok = wellformed(!g_c11);
      if (vf::verbose()) printf("  t=%llu %s -> \"%s\" len=%u %s\n", (unsigned long long)tno, describe().c_str(), vf::vis(std::string(fs.mString, strnlen(fs.mString, L + 1))).c_str(), unsigned(fs.mLength), ok ? "" : "[NOT WELL-FORMED/ASAN]");
      if (!ok) return;
      if (indom) {
         ++indom_checked;
         std::string e = ref; refop(e); if (e.size() > L) e.resize(L);
         bool same = fs.length() == e.size() && fs.str() == e && strcmp(fs.c_str(), e.c_str()) == 0;
         if (!same) { if (g_c11) report("content", "content \"" + vf::vis(fs.str()) + "\" (length " + std::to_string(fs.length()) + "), std::string cut at capacity gives \"" + e + "\""); return; }
      }
      successor();
   }
   // after an observer: got/expected as text
   void end_obs(bool indom, const std::string& got, const std::string& exp) {
      bool ok = wellformed(!g_c11);
      if (ok && memcmp(&fs, cur.data(), SZ) != 0) { ok = false; if (!g_c11) report("wellformed", "observer modified the object"); }
      if (vf::verbose()) printf("  t=%llu %s -> %s (std::string: %s)%s\n", (unsigned long long)tno, describe().c_str(), got.c_str(), indom ? exp.c_str() : "out of domain", ok ? "" : " [ASAN]");
      if (!ok || !indom) return;
      ++indom_checked;
      if (got != exp && g_c11) report("result", "returned " + got + ", std::string returns " + exp);
   }
   static std::string sgn(int v) { return v < 0 ? "<0" : v > 0 ? ">0" : "0"; }
   static std::string bs(bool b) { return b ? "true" : "false"; }

// a wild access (e.g. index npos) ends in SIGSEGV inside the sanitizer's own check: the handler jumps back here and the
// transition is reported like any other invalid access
#define GUARDED(CODE) do { g_jb_armed = 1; if (sigsetjmp(g_jb, 0) == 0) { CODE; } else { g_asan = 3; } g_jb_armed = 0; } while (0)
#define MUT(INDOM, IMPL, REFOP) do { if (begin()) { GUARDED(IMPL); end_mut((INDOM), [&](std::string& r) { REFOP; }); } } while (0)
#define OBS(INDOM, GOT, EXP) do { if (begin()) { std::string g_; GUARDED(g_ = (GOT)); bool id_ = (INDOM); std::string e_ = id_ ? std::string(EXP) : std::string(); end_obs(id_, g_, e_); } } while (0)

   // ---------------------------------------------------------------- families of transitions
   // 0: construction, assignment, element access, iteration, push/pop, simple observers, swap, sprintf, operators
   void fam0() {
      for (size_t si = 0; si < SRC.size(); ++si) {
         const std::string& s = SRC[si]; const char* cs = CS[si]->p;
         A("assign(const char*)", {}, &s); MUT(true, fs.assign(cs), r = s);
         A("assign(std::string)", {}, &s); MUT(true, fs.assign(s), r = s);
         A("operator=(const char*)", {}, &s); MUT(true, fs = cs, r = s);
         A("operator=(std::string)", {}, &s); MUT(true, fs = s, r = s);
         A("ctor(const char*)", {}, &s); MUT(true, { FS t(cs); memcpy((void*)&fs, &t, SZ); }, r = s);
         A("ctor(std::string)", {}, &s); MUT(true, { FS t(s); memcpy((void*)&fs, &t, SZ); }, r = s);
         A("append(const char*)", {}, &s); MUT(true, fs.append(cs), r.append(s));
         A("append(std::string)", {}, &s); MUT(true, fs.append(s), r.append(s));
         A("operator+=(const char*)", {}, &s); MUT(true, fs += cs, r += s);
         A("operator+=(std::string)", {}, &s); MUT(true, fs += s, r += s);
         A("compare(std::string)", {}, &s); OBS(true, sgn(fs.compare(s)), sgn(ref.compare(s)));
         A("compare(const char*)", {}, &s); OBS(true, sgn(fs.compare(cs)), sgn(ref.compare(s)));
         // empty operands of starts_with/ends_with/contains: the implementation documents its own answer -> not compared
         A("starts_with(std::string)", {}, &s); OBS(!s.empty(), bs(fs.starts_with(s)), bs(ref.compare(0, s.size(), s) == 0 && ref.size() >= s.size()));
         A("starts_with(const char*)", {}, &s); OBS(!s.empty(), bs(fs.starts_with(cs)), bs(ref.size() >= s.size() && ref.compare(0, s.size(), s) == 0));
         A("ends_with(std::string)", {}, &s); OBS(!s.empty(), bs(fs.ends_with(s)), bs(ref.size() >= s.size() && ref.compare(ref.size() - s.size(), s.size(), s) == 0));
         A("ends_with(const char*)", {}, &s); OBS(!s.empty(), bs(fs.ends_with(cs)), bs(ref.size() >= s.size() && ref.compare(ref.size() - s.size(), s.size(), s) == 0));
         A("contains(std::string)", {}, &s); OBS(!s.empty(), bs(fs.contains(s)), bs(ref.find(s) != NPOS));
         A("contains(const char*)", {}, &s); OBS(!s.empty(), bs(fs.contains(cs)), bs(ref.find(s) != NPOS));
         A("sprintf(%s)", {}, &s); MUT(true, fs.sprintf("%s", cs), r = s);
         A("sprintf(x%sy)", {}, &s); MUT(true, fs.sprintf("a%sb", cs), r = "a" + s + "b");
         for (size_t c : CNT) {
            if (c > s.size()) continue;          // [str, str+count) must be a valid range
            A("append(const char*,count)", {{'d', c}}, &s); MUT(true, fs.append(cs, c), r.append(s.c_str(), c));
         }
      }
      for (size_t n : {size_t(254), size_t(255), size_t(256), size_t(257), size_t(300), size_t(65536)}) {
         std::string big(n, 'a');
         A("sprintf(%s) long", {{'n', n}}); MUT(true, fs.sprintf("%s", big.c_str()), r = big);
         A("assign(std::string) long", {{'n', n}}); MUT(true, fs.assign(big), r = big);
         A("append(std::string) long", {{'n', n}}); MUT(true, fs.append(big), r.append(big));
      }
      A("sprintf(%c%c%d)", {}); MUT(true, fs.sprintf("%c%c%.0d", 'b', 'a', 0), r = "ba");     // a numeric conversion that prints nothing: content stays over {a,b}
      A("sprintf(empty)", {}); MUT(true, fs.sprintf("%s", ""), r = "");
      A("clear()", {}); MUT(true, fs.clear(), r.clear());
      for (char ch : {'a', 'b'}) {
         A("push_back(ch)", {}, nullptr, ch); MUT(true, fs.push_back(ch), r.push_back(ch));
         A("operator+=(ch)", {}, nullptr, ch); MUT(true, fs += ch, r += ch);
         A("starts_with(ch)", {}, nullptr, ch); OBS(true, bs(fs.starts_with(ch)), bs(!ref.empty() && ref.front() == ch));
         A("ends_with(ch)", {}, nullptr, ch); OBS(true, bs(fs.ends_with(ch)), bs(!ref.empty() && ref.back() == ch));
         A("contains(ch)", {}, nullptr, ch); OBS(true, bs(fs.contains(ch)), bs(ref.find(ch) != NPOS));
         for (size_t c : P) {
            bool sane = c <= 2 * L + 3;
            A("append(count,ch)", {{'n', c}}, nullptr, ch); if (sane) MUT(true, fs.append(c, ch), r.append(c, ch));
         }
      }
      A("pop_back()", {}); MUT(len > 0, fs.pop_back(), r.pop_back());
      A("copy-ctor", {}); MUT(true, { FS t(fs); memcpy((void*)&fs, &t, SZ); }, (void)r);
      A("move-ctor", {}); MUT(true, { FS t(std::move(fs)); memcpy((void*)&fs, &t, SZ); }, (void)r);
      A("str()", {}); OBS(true, fs.str(), ref);
      A("c_str()", {}); OBS(true, std::string(fs.c_str(), strnlen(fs.c_str(), L + 1)), ref);
      A("data()", {}); OBS(true, std::string(fs.data(), strnlen(fs.data(), L + 1)), ref);
      A("length()", {}); OBS(true, std::to_string(fs.length()), std::to_string(ref.size()));
      A("empty()", {}); OBS(true, bs(fs.empty()), bs(ref.empty()));
      A("front()", {}); OBS(len > 0, std::string(1, fs.front()), std::string(1, ref.front()));
      A("back()", {}); OBS(len > 0, std::string(1, fs.back()), std::string(1, ref.back()));
      for (size_t i : P) {
         A("at(idx)", {{'p', i}});
         OBS(i < len, ([&] { try { return std::string(1, fs.at(i)); } catch (const std::out_of_range&) { return std::string("<out_of_range>"); } })(), std::string(1, ref[i < len ? i : 0]));
         if (i <= L) { A("operator[](idx)", {{'p', i}}); OBS(i <= len, std::string(1, fs[i] ? fs[i] : '0'), std::string(1, i < len ? ref[i] : '0')); }
      }
      // iteration in both directions (bounded number of steps so that a non-terminating iteration is a finding, not a hang)
      A("iterate begin..end", {}); OBS(true, ([&] { std::string o; size_t n = 0; for (auto it = fs.begin(); it != fs.end() && n < L + 3; ++it, ++n) o += *it; return o; })(), ref);
      A("iterate cbegin..cend", {}); OBS(true, ([&] { std::string o; size_t n = 0; for (auto it = fs.cbegin(); it != fs.cend() && n < L + 3; it++, ++n) o += *it; return o; })(), ref);
      A("range-for const", {}); OBS(true, ([&] { std::string o; const FS& c = fs; size_t n = 0; for (auto ch : c) { o += ch; if (++n > L + 3) break; } return o; })(), ref);
      A("iterate rbegin..rend", {}); OBS(true, ([&] { std::string o; size_t n = 0; for (auto it = fs.rbegin(); it != fs.rend() && n < L + 3; ++it, ++n) o += *it; return o; })(), std::string(ref.rbegin(), ref.rend()));
      A("iterate crbegin..crend", {}); OBS(true, ([&] { std::string o; size_t n = 0; for (auto it = fs.crbegin(); it != fs.crend() && n < L + 3; it++, ++n) o += *it; return o; })(), std::string(ref.rbegin(), ref.rend()));
      A("end()-begin()", {}); OBS(true, std::to_string(fs.cend() - fs.cbegin()), std::to_string(ref.size()));
      for (size_t k = 0; k < len; ++k) {
         A("*(begin()+=k)", {{'p', k}}); OBS(true, ([&] { auto it = fs.begin(); it += k; return std::string(1, *it); })(), std::string(1, ref[k]));
         A("begin()[k]", {{'p', k}}); OBS(true, ([&] { auto it = fs.cbegin(); return std::string(1, it[k]); })(), std::string(1, ref[k]));
      }
      // substr / copy
      for (size_t p : P) for (size_t c : P) {
         A("substr(pos,count)", {{'p', p}, {'c', c}}); OBS(p <= len, fs.substr(p, c), ref.substr(p <= len ? p : 0, c));
         if (c <= L + 2) {
            A("copy(dest,count,pos)", {{'c', c}, {'p', p}});
            OBS(p <= len, ([&] { CStr d(std::string(c, '#')); size_t n = fs.copy(d.p, c, p); return std::to_string(n) + ":" + std::string(d.p, c); })(),
                ([&] { std::string d(c, '#'); size_t n = ref.copy(&d[0], c, p <= len ? p : 0); return std::to_string(n) + ":" + d; })());
         } else {      // count far beyond the capacity: the destination only has to hold what can be copied (min(count, length - pos) <= L characters)
            A("copy(dest,hugecount,pos)", {{'c', c}, {'p', p}});
            OBS(p <= len, ([&] { CStr d(std::string(L + 2, '#')); size_t n = fs.copy(d.p, c, p); return std::to_string(n) + ":" + std::string(d.p, L + 2); })(),
                ([&] { std::string d(L + 2, '#'); size_t n = ref.copy(&d[0], c, p <= len ? p : 0); return std::to_string(n) + ":" + d; })());
         }
      }
      A("substr(pos)", {{'p', 0}}); OBS(true, fs.substr(0), ref);
      // second object: swap, ==, !=, compare/starts/ends/contains/assign/append/ctor with FixedString<S>
      for (size_t oi = 0; oi < states.size_at_entry; ++oi) {
         const State& os = states[oi];
         std::string oc(os.data(), strnlen(os.data(), L + 1));
         A("swap(other)", {}, &oc);
         if (begin()) { setoth(os); GUARDED(fs.swap(oth)); std::string mine = ref;
            bool okother = (g_asan == 0) && oth.mLength <= L && oth.mString[oth.mLength] == 0 && strnlen(oth.mString, L + 1) == oth.mLength;
            if (okother && g_c11 && std::string(oth.mString) != mine) report("content", "after swap the other object holds \"" + vf::vis(std::string(oth.mString, strnlen(oth.mString, L + 1))) + "\", expected \"" + mine + "\"");
            if (!okother && !g_c11 && !g_asan) report("wellformed", "after swap the OTHER object is not well-formed (length " + std::to_string(oth.mLength) + ", strlen " + std::to_string(strnlen(oth.mString, L + 1)) + ")");
            end_mut(true, [&](std::string& r) { r = oc; }); }
         A("operator==(FixedString<L>)", {}, &oc);
         OBS(true, (setoth(os), bs(fs == oth) + "/" + bs(fs != oth)), bs(ref == oc) + "/" + bs(ref != oc));
         A("find(FixedString)", {}, &oc); OBS(!oc.empty(), (setoth(os), num(fs.find(oth))), num(ref.find(oc)));
         A("rfind(FixedString)", {}, &oc); OBS(!oc.empty(), (setoth(os), num(fs.rfind(oth))), num(ref.rfind(oc)));
         A("find_first_of(FixedString)", {}, &oc); OBS(!oc.empty(), (setoth(os), num(fs.find_first_of(oth))), num(ref.find_first_of(oc)));
         A("find_first_not_of(FixedString)", {}, &oc); OBS(!oc.empty(), (setoth(os), num(fs.find_first_not_of(oth))), num(ref.find_first_not_of(oc)));
         A("find_last_of(FixedString)", {}, &oc); OBS(!oc.empty(), (setoth(os), num(fs.find_last_of(oth))), num(ref.find_last_of(oc)));
         A("find_last_not_of(FixedString)", {}, &oc); OBS(!oc.empty(), (setoth(os), num(fs.find_last_not_of(oth))), num(ref.find_last_not_of(oc)));
         for (size_t p : P) {
            A("find(FixedString,pos)", {{'p', p}}, &oc); OBS(!oc.empty(), (setoth(os), num(fs.find(oth, p))), num(ref.find(oc, p)));
            A("rfind(FixedString,pos)", {{'p', p}}, &oc); OBS(!oc.empty() && bw(p), (setoth(os), num(fs.rfind(oth, p))), num(ref.rfind(oc, p)));
         }
         A("append(it,it) from other", {}, &oc);
         MUT(true, { setoth(os); const FS& co = oth; fs.append(co.begin(), co.end()); }, r.append(oc));
      }
      fam0_fs<S1>(); if (S2 != S1) fam0_fs<S2>(); if (S3 != S2) fam0_fs<S3>();
   }
   template <size_t S> void fam0_fs() {
      Guarded<S> g; FixedString<S>& o = *g.p;
      for (auto& s : SRC) {
         if (s.size() > S) continue;
         o.assign(s); g_asan = 0;
         A(S == S1 ? "assign(FixedString<L+2>)" : S == S2 ? "assign(FixedString<L>)" : "assign(FixedString<L-1>)", {}, &s); MUT(true, fs.assign(o), r = s);
         A("operator=(FixedString<S>)", {}, &s); MUT(true, fs = o, r = s);
         A("ctor(FixedString<S>)", {}, &s); MUT(true, { FS t(o); memcpy((void*)&fs, &t, SZ); }, r = s);
         A("append(FixedString<S>)", {}, &s); MUT(true, fs.append(o), r.append(s));
         A("operator+=(FixedString<S>)", {}, &s); MUT(true, fs += o, r += s);
         A("compare(FixedString<S>)", {}, &s); OBS(true, sgn(fs.compare(o)), sgn(ref.compare(s)));
         A("starts_with(FixedString<S>)", {}, &s); OBS(!s.empty(), bs(fs.starts_with(o)), bs(ref.size() >= s.size() && ref.compare(0, s.size(), s) == 0));
         A("ends_with(FixedString<S>)", {}, &s); OBS(!s.empty(), bs(fs.ends_with(o)), bs(ref.size() >= s.size() && ref.compare(ref.size() - s.size(), s.size(), s) == 0));
         A("contains(FixedString<S>)", {}, &s); OBS(!s.empty(), bs(fs.contains(o)), bs(ref.find(s) != NPOS));
         A("operator==(FixedString<S>)", {}, &s); OBS(true, bs(fs == o) + "/" + bs(fs != o), bs(ref == s) + "/" + bs(ref != s));
         A("operator==(FixedString<S>) reversed", {}, &s); OBS(true, bs(o == fs) + "/" + bs(o != fs), bs(ref == s) + "/" + bs(ref != s));
      }
   }

   // 1: insert
   void fam1() {
      for (size_t i : P) {
         bool iok = i <= len;
         for (char ch : {'a', 'b'}) for (size_t c : P) {
            bool sane = c <= 2 * L + 3;
            A("insert(index,count,ch)", {{'p', i}, {'n', c}}, nullptr, ch); MUT(iok && sane, fs.insert(i, c, ch), r.insert(i, c, ch));
         }
         for (size_t si = 0; si < SRC.size(); ++si) {
            const std::string& s = SRC[si]; const char* cs = CS[si]->p;
            A("insert(index,const char*)", {{'p', i}}, &s); MUT(iok, fs.insert(i, cs), r.insert(i, s));
            A("insert(index,std::string)", {{'p', i}}, &s); MUT(iok, fs.insert(i, s), r.insert(i, s));
            for (size_t c : CNT) { if (c > s.size()) continue;
               A("insert(index,const char*,count)", {{'p', i}, {'d', c}}, &s); MUT(iok, fs.insert(i, cs, c), r.insert(i, s.c_str(), c)); }
            for (size_t q : P2) for (size_t d : P2) {
               A("insert(index,std::string,index_str,count)", {{'p', i}, {'q', q}, {'d', d}}, &s);
               if (q <= s.size()) MUT(iok, fs.insert(i, s, q, d), r.insert(i, s, q, d));     // q > size: std::string::substr inside the library throws from a noexcept function (caller error)
            }
         }
      }
      // iterator forms: position k = begin()+k, k == len is end()
      for (size_t k = 0; k <= len; ++k) {
         for (char ch : {'a', 'b'}) {
            A("insert(const_iterator,ch)", {{'p', k}}, nullptr, ch);
            // inserting at end() is a documented no-op of this class ("if (pos == cend()) return end()"), pinned by the in-tree test: not compared
            MUT(k < len, { typename FS::const_iterator it(&fs, k); fs.insert(it, ch); }, r.insert(r.begin() + k, ch));
            for (size_t c : CNT) { A("insert(const_iterator,count,ch)", {{'p', k}, {'n', c}}, nullptr, ch);
               MUT(k < len, { typename FS::const_iterator it(&fs, k); fs.insert(it, c, ch); }, r.insert(r.begin() + k, c, ch)); }
         }
         A("insert(const_iterator,{})", {{'p', k}}); MUT(k < len, { typename FS::const_iterator it(&fs, k); fs.insert(it, std::initializer_list<char>{}); }, (void)r);
         A("insert(const_iterator,{a})", {{'p', k}, {'n', 1}}); MUT(k < len, { typename FS::const_iterator it(&fs, k); fs.insert(it, {'a'}); }, r.insert(r.begin() + k, {'a'}));
         A("insert(const_iterator,{a,b,a})", {{'p', k}, {'n', 3}}); MUT(k < len, { typename FS::const_iterator it(&fs, k); fs.insert(it, {'a', 'b', 'a'}); }, r.insert(r.begin() + k, {'a', 'b', 'a'}));
      }
      fam1_fs<S1>(); if (S2 != S1) fam1_fs<S2>(); if (S3 != S2) fam1_fs<S3>();
   }
   template <size_t S> void fam1_fs() {
      Guarded<S> g; FixedString<S>& o = *g.p;
      for (auto& s : SRC) {
         if (s.size() > S) continue;
         o.assign(s); g_asan = 0;
         for (size_t i : P) {
            bool iok = i <= len;
            A("insert(index,FixedString<S>)", {{'p', i}}, &s); MUT(iok, fs.insert(i, o), r.insert(i, s));
            for (size_t q : P2) for (size_t d : P2) {
               A("insert(index,FixedString<S>,index_str,count)", {{'p', i}, {'q', q}, {'d', d}}, &s);
               MUT(iok && q <= s.size(), fs.insert(i, o, q, d), r.insert(i, s, q, d));
            }
         }
      }
   }

   // 2: erase, append with positions
   void fam2() {
      for (size_t i : P) for (size_t c : P) { A("erase(index,count)", {{'p', i}, {'c', c}}); MUT(i <= len, fs.erase(i, c), r.erase(i, c)); }
      A("erase()", {}); MUT(true, fs.erase(), r.erase());
      for (size_t i : P) { A("erase(index)", {{'p', i}}); MUT(i <= len, fs.erase(i), r.erase(i)); }
      for (size_t k : offsets(len)) {
         if (k >= len) continue;
         A("erase(const_iterator)", {{'p', k}}); MUT(true, { typename FS::const_iterator it(&fs, k); fs.erase(it); }, r.erase(r.begin() + k));
         for (size_t k2 : offsets(len)) {
            if (k2 < k) continue;
            A("erase(first,last)", {{'p', k}, {'c', k2 - k}});
            MUT(true, { typename FS::const_iterator a(&fs, k); typename FS::const_iterator b(&fs, k2); fs.erase(a, b); }, r.erase(r.begin() + k, r.begin() + k2));
         }
      }
      for (size_t si = 0; si < SRC.size(); ++si) {
         const std::string& s = SRC[si];
         for (size_t q : P2) for (size_t d : P2) {
            A("append(std::string,pos,count)", {{'q', q}, {'d', d}}, &s); MUT(q <= s.size(), fs.append(s, q, d), r.append(s, q, d));
         }
      }
      fam2_fs<S1>(); if (S2 != S1) fam2_fs<S2>(); if (S3 != S2) fam2_fs<S3>();
   }
   template <size_t S> void fam2_fs() {
      Guarded<S> g; FixedString<S>& o = *g.p;
      for (auto& s : SRC) {
         if (s.size() > S) continue;
         o.assign(s); g_asan = 0;
         for (size_t q : P2) for (size_t d : P2) {
            A("append(FixedString<S>,pos,count)", {{'q', q}, {'d', d}}, &s); MUT(q <= s.size(), fs.append(o, q, d), r.append(s, q, d));
         }
      }
   }

   // 3: replace, position forms with std::string / const char* / (count2,ch)
   void fam3() {
      for (size_t p : P) for (size_t c : P) {
         bool pok = p <= len;
         for (size_t si = 0; si < SRC.size(); ++si) {
            const std::string& s = SRC[si]; const char* cs = CS[si]->p;
            A("replace(pos,count,std::string)", {{'p', p}, {'c', c}}, &s); MUT(pok, fs.replace(p, c, s), r.replace(p, c, s));
            A("replace(pos,count,const char*)", {{'p', p}, {'c', c}}, &s); MUT(pok, fs.replace(p, c, cs), r.replace(p, c, s.c_str()));
            for (size_t d : CNT) { if (d > s.size()) continue;
               A("replace(pos,count,const char*,count2)", {{'p', p}, {'c', c}, {'d', d}}, &s); MUT(pok, fs.replace(p, c, cs, d), r.replace(p, c, s.c_str(), d)); }
         }
         for (char ch : {'a', 'b'}) for (size_t n : CNT) {
            A("replace(pos,count,count2,ch)", {{'p', p}, {'c', c}, {'n', n}}, nullptr, ch); MUT(pok, fs.replace(p, c, n, ch), r.replace(p, c, n, ch));
         }
      }
   }
   // 4: replace(pos1,count1,std::string,pos2,count2)
   void fam4() {
      for (size_t p : P) for (size_t c : P) {
         bool pok = p <= len;
         for (size_t si = 0; si < SRC.size(); ++si) {
            const std::string& s = SRC[si];
            for (size_t q : P2) for (size_t d : P2) {
               A("replace(pos1,count1,std::string,pos2,count2)", {{'p', p}, {'c', c}, {'q', q}, {'d', d}}, &s);
               MUT(pok && q <= s.size(), fs.replace(p, c, s, q, d), r.replace(p, c, s, q, d));
            }
         }
      }
   }
   // 5: replace with FixedString<S> sources and iterator forms
   void fam5() {
      fam5_fs<S1>(); if (S2 != S1) fam5_fs<S2>(); if (S3 != S2) fam5_fs<S3>();
      for (size_t k : offsets(len)) for (size_t k2 : offsets(len)) {
         if (k2 < k) continue;
         // iterator ranges [begin()+k, begin()+k2): first==end() or empty ranges are documented no-ops of this class (not compared, std::string would insert)
         bool cmp = (k < len) && (k2 > k);
         for (size_t si = 0; si < SRC.size(); ++si) {
            const std::string& s = SRC[si]; const char* cs = CS[si]->p;
            A("replace(first,last,const char*)", {{'p', k}, {'c', k2 - k}}, &s);
            MUT(cmp && !s.empty(), { typename FS::const_iterator a(&fs, k); typename FS::const_iterator b(&fs, k2); fs.replace(a, b, cs); }, r.replace(r.begin() + k, r.begin() + k2, s.c_str()));
            for (size_t d : CNT) { if (d > s.size()) continue;
               A("replace(first,last,const char*,count2)", {{'p', k}, {'c', k2 - k}, {'d', d}}, &s);
               MUT(cmp && d > 0, { typename FS::const_iterator a(&fs, k); typename FS::const_iterator b(&fs, k2); fs.replace(a, b, cs, d); }, r.replace(r.begin() + k, r.begin() + k2, s.c_str(), d)); }
            A("replace(first,last,std::string::iterator,iterator)", {{'p', k}, {'c', k2 - k}}, &s);
            MUT(cmp && !s.empty(), { std::string t(s); typename FS::const_iterator a(&fs, k); typename FS::const_iterator b(&fs, k2); fs.replace(a, b, t.begin(), t.end()); }, r.replace(r.begin() + k, r.begin() + k2, s.begin(), s.end()));
         }
         for (char ch : {'a', 'b'}) for (size_t n : CNT) {
            A("replace(first,last,count2,ch)", {{'p', k}, {'c', k2 - k}, {'n', n}}, nullptr, ch);
            MUT(cmp && n > 0, { typename FS::const_iterator a(&fs, k); typename FS::const_iterator b(&fs, k2); fs.replace(a, b, n, ch); }, r.replace(r.begin() + k, r.begin() + k2, n, ch));
         }
         A("replace(first,last,{a,b})", {{'p', k}, {'c', k2 - k}, {'n', 2}});
         MUT(cmp, { typename FS::const_iterator a(&fs, k); typename FS::const_iterator b(&fs, k2); fs.replace(a, b, {'a', 'b'}); }, r.replace(r.begin() + k, r.begin() + k2, {'a', 'b'}));
         // source = iterators of a second FixedString<L>
         for (size_t oi = 0; oi < states.size_at_entry; ++oi) {
            const State& os = states[oi]; std::string oc(os.data(), strnlen(os.data(), L + 1));
            A("replace(first,last,iterator,iterator)", {{'p', k}, {'c', k2 - k}}, &oc);
            MUT(cmp && !oc.empty(), { setoth(os); typename FS::const_iterator a(&fs, k); typename FS::const_iterator b(&fs, k2); fs.replace(a, b, oth.begin(), oth.end()); }, r.replace(r.begin() + k, r.begin() + k2, oc));
         }
      }
   }
   template <size_t S> void fam5_fs() {
      Guarded<S> g; FixedString<S>& o = *g.p;
      for (auto& s : SRC) {
         if (s.size() > S) continue;
         o.assign(s); g_asan = 0;
         for (size_t p : P) for (size_t c : P) {
            bool pok = p <= len;
            A("replace(pos,count,FixedString<S>)", {{'p', p}, {'c', c}}, &s); MUT(pok, fs.replace(p, c, o), r.replace(p, c, s));
            for (size_t q : P2) for (size_t d : P2) {
               A("replace(pos1,count1,FixedString<S>,pos2,count2)", {{'p', p}, {'c', c}, {'q', q}, {'d', d}}, &s);
               MUT(pok && q <= s.size(), fs.replace(p, c, o, q, d), r.replace(p, c, s, q, d));
            }
         }
      }
   }

   // 6: compare with positions
   void fam6() {
      for (size_t p : P) for (size_t c : P) {
         bool pok = p <= len;
         for (size_t si = 0; si < SRC.size(); ++si) {
            const std::string& s = SRC[si]; const char* cs = CS[si]->p;
            A("compare(pos1,count1,std::string)", {{'p', p}, {'c', c}}, &s); OBS(pok, sgn(fs.compare(p, c, s)), sgn(ref.compare(p, c, s)));
            A("compare(pos1,count1,const char*)", {{'p', p}, {'c', c}}, &s); OBS(pok, sgn(fs.compare(p, c, cs)), sgn(ref.compare(p, c, s.c_str())));
            for (size_t d : CNT) { if (d > s.size()) continue;
               A("compare(pos1,count1,const char*,count2)", {{'p', p}, {'c', c}, {'d', d}}, &s); OBS(pok, sgn(fs.compare(p, c, cs, d)), sgn(ref.compare(p, c, s.c_str(), d))); }
            for (size_t q : P2) for (size_t d : P2) {
               A("compare(pos1,count1,std::string,pos2,count2)", {{'p', p}, {'c', c}, {'q', q}, {'d', d}}, &s);
               OBS(pok && q <= s.size(), sgn(fs.compare(p, c, s, q, d)), sgn(ref.compare(p, c, s, q, d)));
            }
         }
      }
      fam6_fs<S1>(); if (S2 != S1) fam6_fs<S2>(); if (S3 != S2) fam6_fs<S3>();
   }
   template <size_t S> void fam6_fs() {
      Guarded<S> g; FixedString<S>& o = *g.p;
      for (auto& s : SRC) {
         if (s.size() > S) continue;
         o.assign(s); g_asan = 0;
         for (size_t p : P) for (size_t c : P) {
            bool pok = p <= len;
            A("compare(pos1,count1,FixedString<S>)", {{'p', p}, {'c', c}}, &s); OBS(pok, sgn(fs.compare(p, c, o)), sgn(ref.compare(p, c, s)));
            for (size_t q : P2) for (size_t d : P2) {
               A("compare(pos1,count1,FixedString<S>,pos2,count2)", {{'p', p}, {'c', c}, {'q', q}, {'d', d}}, &s);
               OBS(pok && q <= s.size(), sgn(fs.compare(p, c, o, q, d)), sgn(ref.compare(p, c, s, q, d)));
            }
         }
      }
   }

   // 7: find family with std::string / const char* / char operands. Empty operands: the class documents
   //    "npos if not found" and answers npos for empty search strings (pinned by the in-tree test) -> not compared.
   void fam7() {
      for (size_t p : P) {
         for (char ch : {'a', 'b'}) {
            A("find(ch,pos)", {{'p', p}}, nullptr, ch); OBS(true, num(fs.find(ch, p)), num(ref.find(ch, p)));
            A("rfind(ch,pos)", {{'p', p}}, nullptr, ch); OBS(bw(p), num(fs.rfind(ch, p)), num(ref.rfind(ch, p)));
            A("find_first_of(ch,pos)", {{'p', p}}, nullptr, ch); OBS(true, num(fs.find_first_of(ch, p)), num(ref.find_first_of(ch, p)));
            A("find_first_not_of(ch,pos)", {{'p', p}}, nullptr, ch); OBS(true, num(fs.find_first_not_of(ch, p)), num(ref.find_first_not_of(ch, p)));
            A("find_last_of(ch,pos)", {{'p', p}}, nullptr, ch); OBS(bw(p), num(fs.find_last_of(ch, p)), num(ref.find_last_of(ch, p)));
            A("find_last_not_of(ch,pos)", {{'p', p}}, nullptr, ch); OBS(bw(p), num(fs.find_last_not_of(ch, p)), num(ref.find_last_not_of(ch, p)));
         }
         for (size_t si = 0; si < SRC.size(); ++si) {
            const std::string& s = SRC[si]; const char* cs = CS[si]->p; bool ne = !s.empty();
            A("find(std::string,pos)", {{'p', p}}, &s); OBS(ne, num(fs.find(s, p)), num(ref.find(s, p)));
            A("find(const char*,pos)", {{'p', p}}, &s); OBS(ne, num(fs.find(cs, p)), num(ref.find(s.c_str(), p)));
            A("rfind(std::string,pos)", {{'p', p}}, &s); OBS(ne && bw(p), num(fs.rfind(s, p)), num(ref.rfind(s, p)));
            A("rfind(const char*,pos)", {{'p', p}}, &s); OBS(ne && bw(p), num(fs.rfind(cs, p)), num(ref.rfind(s.c_str(), p)));
            A("find_first_of(std::string,pos)", {{'p', p}}, &s); OBS(ne, num(fs.find_first_of(s, p)), num(ref.find_first_of(s, p)));
            A("find_first_of(const char*,pos)", {{'p', p}}, &s); OBS(ne, num(fs.find_first_of(cs, p)), num(ref.find_first_of(s.c_str(), p)));
            A("find_first_not_of(std::string,pos)", {{'p', p}}, &s); OBS(ne, num(fs.find_first_not_of(s, p)), num(ref.find_first_not_of(s, p)));
            A("find_first_not_of(const char*,pos)", {{'p', p}}, &s); OBS(ne, num(fs.find_first_not_of(cs, p)), num(ref.find_first_not_of(s.c_str(), p)));
            A("find_last_of(std::string,pos)", {{'p', p}}, &s); OBS(ne && bw(p), num(fs.find_last_of(s, p)), num(ref.find_last_of(s, p)));
            A("find_last_of(const char*,pos)", {{'p', p}}, &s); OBS(ne && bw(p), num(fs.find_last_of(cs, p)), num(ref.find_last_of(s.c_str(), p)));
            A("find_last_not_of(std::string,pos)", {{'p', p}}, &s); OBS(ne && bw(p), num(fs.find_last_not_of(s, p)), num(ref.find_last_not_of(s, p)));
            A("find_last_not_of(const char*,pos)", {{'p', p}}, &s); OBS(ne && bw(p), num(fs.find_last_not_of(cs, p)), num(ref.find_last_not_of(s.c_str(), p)));
            for (size_t d : CNT) { if (d > s.size()) continue; bool ne2 = d > 0;
               A("find(const char*,pos,count)", {{'p', p}, {'d', d}}, &s); OBS(ne2, num(fs.find(cs, p, d)), num(ref.find(s.c_str(), p, d)));
               A("rfind(const char*,pos,count)", {{'p', p}, {'d', d}}, &s); OBS(ne2 && p < len, num(fs.rfind(cs, p, d)), num(ref.rfind(s.c_str(), p, d)));
               A("find_first_of(const char*,pos,count)", {{'p', p}, {'d', d}}, &s); OBS(ne2, num(fs.find_first_of(cs, p, d)), num(ref.find_first_of(s.c_str(), p, d)));
               A("find_first_not_of(const char*,pos,count)", {{'p', p}, {'d', d}}, &s); OBS(ne2, num(fs.find_first_not_of(cs, p, d)), num(ref.find_first_not_of(s.c_str(), p, d)));
               A("find_last_of(const char*,pos,count)", {{'p', p}, {'d', d}}, &s); OBS(ne2 && p < len, num(fs.find_last_of(cs, p, d)), num(ref.find_last_of(s.c_str(), p, d)));
               A("find_last_not_of(const char*,pos,count)", {{'p', p}, {'d', d}}, &s); OBS(ne2 && p < len, num(fs.find_last_not_of(cs, p, d)), num(ref.find_last_not_of(s.c_str(), p, d)));
            }
         }
      }
      for (size_t si = 0; si < SRC.size(); ++si) {       // default position arguments
         const std::string& s = SRC[si]; const char* cs = CS[si]->p; bool ne = !s.empty();
         A("find(std::string)", {}, &s); OBS(ne, num(fs.find(s)), num(ref.find(s)));
         A("rfind(std::string)", {}, &s); OBS(ne, num(fs.rfind(s)), num(ref.rfind(s)));
         A("rfind(const char*)", {}, &s); OBS(ne, num(fs.rfind(cs)), num(ref.rfind(s.c_str())));
         A("find_last_of(std::string)", {}, &s); OBS(ne, num(fs.find_last_of(s)), num(ref.find_last_of(s)));
         A("find_last_not_of(const char*)", {}, &s); OBS(ne, num(fs.find_last_not_of(cs)), num(ref.find_last_not_of(s.c_str())));
      }
      for (char ch : {'a', 'b'}) {
         A("find(ch)", {}, nullptr, ch); OBS(true, num(fs.find(ch)), num(ref.find(ch)));
         A("rfind(ch)", {}, nullptr, ch); OBS(true, num(fs.rfind(ch)), num(ref.rfind(ch)));
         A("find_last_of(ch)", {}, nullptr, ch); OBS(true, num(fs.find_last_of(ch)), num(ref.find_last_of(ch)));
         A("find_last_not_of(ch)", {}, nullptr, ch); OBS(true, num(fs.find_last_not_of(ch)), num(ref.find_last_not_of(ch)));
      }
   }
   static constexpr int NFAM = 8;

   // The 5-argument families (4: replace with pos2/count2, 5: FixedString<S>/iterator replace, 6: positional compare) are
   // run from ONE object image per content (the first one found); images that differ only in the stale bytes behind the
   // terminator get all other families. (A stale byte can only matter to an operation that reads behind the terminator,
   // which the lighter families and the memory oracle expose.)
   bool family_applies(size_t st, int fam) {
      if (fam < 4 || fam > 6) return true;
      const State& s = states[st]; std::string content(s.data(), strnlen(s.data(), L + 1));
      for (size_t i = 0; i < st; ++i) if (std::string(states[i].data(), strnlen(states[i].data(), L + 1)) == content) return false;
      return true;
   }
   void run_family(size_t st, int fam) {
      cur = states[st]; cur_state = st; cur_fam = fam; tno = 0;
      ref.assign(cur.data(), strnlen(cur.data(), L + 1)); len = ref.size();
      states.size_at_entry = states.size();      // second-object loops range over the states known when the family starts
      switch (fam) { case 0: fam0(); break; case 1: fam1(); break; case 2: fam2(); break; case 3: fam3(); break;
                     case 4: fam4(); break; case 5: fam5(); break; case 6: fam6(); break; case 7: fam7(); break; }
   }

   // discovery: fixed point of the state set under all mutating families (silent: reports come from the sharded pass)
   bool seeds_only = false;
   // Large capacities (255/256: the boundary of the 8/16 bit length type): no closure - the object images are too many.
   // Instead a fixed set of seed states (empty, 1, L/2, L-1, L characters, built through the public interface) is
   // expanded ONE step with the thinned alphabet; successors are checked but not expanded.
   void seed_states() {
      FS init; State s0(reinterpret_cast<const char*>(&init), SZ); index.emplace(s0, 0); states.push_back(s0);
      for (size_t n : {size_t(1), L / 2, L - 1, L}) for (int v = 0; v < 2; ++v) {
         std::string t(n, 'a'); if (v && n > 0) t[n - 1] = 'b'; FS f; f.assign(t); State s(reinterpret_cast<const char*>(&f), SZ);
         if (index.find(s) == index.end()) { index.emplace(s, states.size()); states.push_back(s); }
      }
   }
   void discover() {
      if (seeds_only) { seed_states(); return; }
      X<L>* d = new X<L>(2);                      // same code, small argument domains
      FS init; State s0(reinterpret_cast<const char*>(&init), SZ);
      d->index.emplace(s0, 0); d->states.push_back(s0);
      bool saved = g_c11; g_c11 = false;
      for (size_t i = 0; i < d->states.size(); ++i) for (int fam : {0, 1, 2, 3, 4, 5}) { d->run_family(i, fam); if (vf::deadline_hit()) break; }
      g_c11 = saved;
      discovery_transitions = d->transitions;
      states = d->states; index = d->index;
      delete d;
   }
   uint64_t discovery_transitions = 0;
};

template <size_t L> static void explore(bool thin, const char* label) {
   X<L> x(thin ? 1 : 0);
   x.seeds_only = thin && L > 16;
   // replay: "L=<L> state=<n> fam=<f> t=<k>"
   if (vf::replaying()) {
      unsigned l, st, fam; unsigned long long t;
      if (sscanf(vf::replay_case().c_str(), "L=%u state=%u fam=%u t=%llu", &l, &st, &fam, &t) != 4 || l != L) return;
      g_discovering = true; x.discover(); g_discovering = false;
      if (st >= x.states.size()) { printf("replay: state %u not reachable any more (%zu states)\n", st, x.states.size()); return; }
      printf("replay: capacity %zu, state #%u = \"%s\", family %u, transition %llu\n", L, st, std::string(x.states[st].data(), strnlen(x.states[st].data(), L + 1)).c_str(), fam, t);
      g_replay_t = int64_t(t); x.run_family(st, int(fam)); g_replay_t = -1;
      return;
   }
   bool any = false;
   // one case per (capacity, state, family); the state list is identical in every worker (deterministic discovery)
   // cases are announced first for all states known after discovery; states found later by the wider sharded pass are expanded by their finder
   g_discovering = true; x.discover(); g_discovering = false;
   size_t known = x.states.size();
   uint64_t tr0 = x.transitions;
   for (size_t st = 0; st < known; ++st) for (int fam = 0; fam < X<L>::NFAM; ++fam) {
      if (!x.family_applies(st, fam)) continue;
      if (!vf::want_case()) continue;
      any = true;
      vf::note(std::string(label) + " state " + std::to_string(st) + " fam " + std::to_string(fam));
      x.run_family(st, fam);
      if (vf::deadline_hit()) break;
   }
   for (size_t st = known; st < x.states.size() && any && !x.seeds_only; ++st) {          // late states: expand completely, locally
      vf::count("late_states");
      for (int fam = 0; fam < X<L>::NFAM; ++fam) if (x.family_applies(st, fam)) x.run_family(st, fam);
      if (vf::deadline_hit()) break;
   }
   if (any) {
      vf::count("transitions", x.transitions - tr0);
      vf::count("evaluations", x.transitions - tr0);
      vf::count("indomain_compared", x.indom_checked);
      vf::count("transitions_reaching_capacity", x.hit_capacity);
      vf::count("transitions_changing_state", x.changed);
      vf::setmax("max_states_L" + std::to_string(L), x.states.size());
      if (vf::ctx().shard == 0 || vf::ctx().only >= 0) {
         vf::count("states", x.states.size());
         for (size_t i = 0; i < x.states.size(); ++i) vf::nontrivial(std::string(label) + x.states[i]);
         vf::sample(std::string(label) + ": " + std::to_string(x.states.size()) + " states (object images), e.g. \"" + std::string(x.states[x.states.size() / 2].data(), strnlen(x.states[x.states.size() / 2].data(), L + 1)) + "\"; families 0-7 x all argument tuples from every state");
         vf::fact(std::string(x.seeds_only ? "seeds_" : "closed_") + label, x.seeds_only ? "seed states expanded one step (no closure): " + std::to_string(known) + " seeds" : "state set closed under all mutators: " + std::to_string(x.states.size()) + " states");
      }
   }
}

#ifdef VF_CAP
#define VF_CAT2(a, b) a##b
#define VF_CAT(a, b) VF_CAT2(a, b)
#define VF_STR2(x) #x
#define VF_STR(x) VF_STR2(x)
void VF_CAT(explore_cap_, VF_CAP)() { explore<VF_CAP>(VF_THIN != 0, "L=" VF_STR(VF_CAP)); }
#else
void explore_cap_1(); void explore_cap_2(); void explore_cap_3(); void explore_cap_4(); void explore_cap_5(); void explore_cap_7(); void explore_cap_255(); void explore_cap_256();
static void on_terminate() {      // an exception escaped a noexcept operation: report the transition instead of dying
   if (g_jb_armed) { g_asan = 5; siglongjmp(g_jb, 1); }
   abort();
}
static void on_segv(int sig) {
   if (!g_jb_armed) { signal(sig, SIG_DFL); raise(sig); return; }
   sigset_t m; sigemptyset(&m); sigaddset(&m, sig); sigprocmask(SIG_UNBLOCK, &m, nullptr);
   siglongjmp(g_jb, 1);
}
int main(int argc, char** argv) {
   // --opt prop=C10|C11 is passed as a plain pair of arguments after the standard ones
   std::vector<char*> args; std::string prop = "C10", caps;
   for (int i = 0; i < argc; ++i) {
      if (std::string(argv[i]) == "--opt" && i + 1 < argc) { std::string o = argv[++i]; if (o.rfind("prop=", 0) == 0) prop = o.substr(5); if (o.rfind("caps=", 0) == 0) caps = "," + o.substr(5) + ","; }
      else args.push_back(argv[i]);
   }
   vf::init(int(args.size()), args.data());
   g_c11 = (prop == "C11");
   vf::fact("oracle", g_c11 ? "C11: std::string cut at capacity (in-domain tuples)" : "C10: memory safety and well-formedness (all tuples)");
   signal(SIGSEGV, on_segv); signal(SIGBUS, on_segv); std::set_terminate(on_terminate);
   auto on = [&](int c, bool deflt) { return caps.empty() ? deflt : caps.find("," + std::to_string(c) + ",") != std::string::npos; };
   const bool th = vf::thorough();
   if (on(1, true)) explore_cap_1(); if (on(2, true)) explore_cap_2(); if (on(3, true)) explore_cap_3(); if (on(4, !th)) explore_cap_4(); if (on(255, !th)) explore_cap_255();     // quick: capacities 1..4 closed + 255 (length-type maximum) one step from seed states
   // the largest search (L=7) runs last, so that a deadline only ever cuts into it
   if (on(4, th)) explore_cap_4(); if (on(5, th)) explore_cap_5(); if (on(255, th)) explore_cap_255(); if (on(256, th)) explore_cap_256(); if (on(7, th)) explore_cap_7();
   vf::finish();
   return 0;
}
#endif
