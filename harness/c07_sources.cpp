// C07  Arguments from a string, a file or the environment equal the same words on argv     (engine E2 xenum)
//
// part 1 (quoting inverse): ALL lists of <= 3 words (<= 2 for 3-character words) over {a, blank, ', ", \}, every word
//          non-empty, each word escaped in four styles (backslash every special; wrap in "; wrap in '; alternate per
//          character); oracle: make_arg_array(join(escaped)) yields exactly the words, argc right, argv[argc] null,
//          with and without a program name; ASan on the generated array.
// part 2 (source equivalence): configurations with int/string/list/flag arguments (plain, and with mandatory + range
//          check); ALL abstract lines of <= 3 uses; EVERY split of the uses over {argv, program-argument file
//          ($HOME/.progargs/prog.pa), argument file given by key, environment variable}; file layouts (one use per
//          line / one line) with comment and empty lines interspersed. Oracle: the abstract evaluator run on the uses in
//          evaluation order (file, environment, argv with the argument file at its position), file/env uses not counted
//          for the cardinality: same accept/reject verdict, same destination values (argv value wins over file value).
#include "harness/args.hpp"
#include "celma/appl/arg_string_2_array.hpp"
#include <sys/stat.h>
#include <fstream>
using namespace hc;

static uint64_t g_evals = 0, g_quote_cases = 0, g_splits = 0, g_overrides = 0, g_rejections = 0;
static std::string g_home;

// ------------------------------------------------------------------------------------------------ part 1
static bool special(char c) { return c == ' ' || c == '\'' || c == '"' || c == '\\'; }
static std::string escape(const std::string& w, int style) {
   std::string o;
   switch (style) {
   case 0: for (char c : w) { if (special(c)) o += '\\'; o += c; } return o;
   case 1: o = "\""; for (char c : w) { if (c == '"' || c == '\\') o += '\\'; o += c; } return o + "\"";
   case 2: o = "'"; for (char c : w) { if (c == '\'' || c == '\\') o += '\\'; o += c; } return o + "'";
   // over-escaping: inside quotes EVERY special character gets a backslash (the other kind of quote and the blank would not need one)
   case 4: o = "\""; for (char c : w) { if (special(c)) o += '\\'; o += c; } return o + "\"";
   case 5: o = "'"; for (char c : w) { if (special(c)) o += '\\'; o += c; } return o + "'";
   default: { bool q = false; for (size_t i = 0; i < w.size(); ++i) { char c = w[i]; if (i % 2 == 0) { if (special(c)) o += '\\'; o += c; } else { o += '"'; if (c == '"' || c == '\\') o += '\\'; o += c; o += '"'; } } (void)q; return o; }
   }
}
static void quoting_case(const std::vector<std::string>& words, const std::vector<int>& styles) {
   std::string line; for (size_t i = 0; i < words.size(); ++i) { if (i) line += ' '; line += escape(words[i], styles[i]); }
   ++g_quote_cases;
   for (int with_prog = 0; with_prog < 2; ++with_prog) {
      std::vector<std::string> got; int argc = -1; bool null_term = false;
      {
         auto arr = with_prog ? celma::appl::make_arg_array(line, "prog") : celma::appl::make_arg_array(line);
         argc = arr.mArgC; for (int i = with_prog; i < arr.mArgC; ++i) got.push_back(arr.mpArgV[i]);
         null_term = arr.mpArgV[arr.mArgC] == nullptr;
         if (with_prog && std::string(arr.mpArgV[0]) != "prog") vf::violation("quoting|progname", "argv[0] is '" + std::string(arr.mpArgV[0]) + "'", "Q " + vf::vis(line));
      }
      ++g_evals; vf::heartbeat();
      if (vf::verbose()) printf("  split \"%s\" -> %s\n", vf::vis(line).c_str(), words_text(got).c_str());
      std::string sty; for (int s : styles) sty += std::to_string(s);
      if (got != words) vf::violation("quoting|words|style" + sty, "splitting \"" + vf::vis(line) + "\" gives " + words_text(got) + " instead of " + words_text(words), "Q " + vf::vis(line));
      else if (argc != int(words.size()) + with_prog) vf::violation("quoting|argc", "argc " + std::to_string(argc) + " for " + std::to_string(words.size()) + " words", "Q " + vf::vis(line));
      else if (!null_term) vf::violation("quoting|null", "argv[argc] is not null", "Q " + vf::vis(line));
   }
}
static void part1() {
   const char alpha[] = {'a', ' ', '\'', '"', '\\'};
   std::vector<std::string> w1, w2, w3;
   for (char a : alpha) { w1.push_back(std::string(1, a)); for (char b : alpha) { w2.push_back(std::string{a, b}); for (char c : alpha) w3.push_back(std::string{a, b, c}); } }
   std::vector<std::string> small = w1; small.insert(small.end(), w2.begin(), w2.end());
   std::vector<std::string> all = small; all.insert(all.end(), w3.begin(), w3.end());
   const bool th = vf::thorough();
   // lists of 1..3 words; 3-character words only in lists of <= 2 (thorough: <= 2 as well, but all four styles per word)
   for (int n = 1; n <= 3; ++n) {
      const std::vector<std::string>& pool = n == 3 ? (th ? small : w1) : all;
      uint64_t total = 1; for (int i = 0; i < n; ++i) total *= pool.size();
      bool mine = false;
      for (uint64_t idx = 0; idx < total; ++idx) {
         if ((idx % 512) == 0) { mine = vf::want_case(); if (mine) vf::note("quoting lists of " + std::to_string(n) + " words"); }
         if (!mine) continue;
         std::vector<std::string> words; uint64_t r = idx; for (int i = 0; i < n; ++i) { words.push_back(pool[r % pool.size()]); r /= pool.size(); }
         vf::Odometer st(std::vector<unsigned>(n, n == 1 ? 6u : 4u));      // single words also in the two over-escaping styles
         while (st.next()) { std::vector<int> styles; for (int i = 0; i < n; ++i) styles.push_back(int(st[i])); quoting_case(words, styles); }
      }
   }
   // two-word lists over words of <= 2 characters with every combination of the 6 styles (the over-escaping ones included)
   { bool mine = false; uint64_t k = 0; for (auto& a : small) for (auto& b : small) { if ((k++ % 64) == 0) { mine = vf::want_case(); if (mine) vf::note("quoting two words, 6 styles"); } if (!mine) continue;
        for (int sa = 0; sa < 6; ++sa) for (int sb = 0; sb < 6; ++sb) { if (sa < 4 && sb < 4) continue; quoting_case({a, b}, {sa, sb}); } } }
   vf::sample("quoting: word list ['a b', '\\'\"', '\\\\'] in 4^3 escape styles, with and without program name");
}

// ------------------------------------------------------------------------------------------------ part 2
enum Src { ARGV, PROGFILE, ARGFILE, ENV };
// words that need quoting are written in one of the 4 escape styles of part 1 (g_quote_style is varied with the file decoration)
static int g_quote_style = 1;
static std::string quote_word(const std::string& w) { bool need = w.empty(); for (char c : w) if (special(c)) need = true; return need ? escape(w, w.empty() ? 1 : g_quote_style) : w; }
static std::string join_words(const std::vector<std::string>& ws) { std::string l; for (size_t i = 0; i < ws.size(); ++i) l += (i ? " " : "") + quote_word(ws[i]); return l; }
static void write_file(const std::string& path, const std::vector<std::vector<std::string>>& use_words, int layout, int deco) {
   std::ofstream f(path);
   if (deco == 1) f << "# comment first\n";
   if (layout == 0) { for (size_t i = 0; i < use_words.size(); ++i) { f << join_words(use_words[i]) << "\n"; if (deco == 2 && i + 1 < use_words.size()) f << "\n# in between\n"; } }
   else { std::vector<std::string> all; for (auto& u : use_words) all.insert(all.end(), u.begin(), u.end()); f << join_words(all) << "\n"; if (deco == 2) f << "\n"; }
   if (deco == 3) f << "# comment last\n\n";
}

// nest: where the argument file is referenced from: 0 = argv (at the position of its first use), 1 = at the end of the environment variable, 2 = last line of the program-argument file
static void source_case(const Cfg& cfg, const std::vector<Use>& uses, const std::vector<int>& src, int layout, int deco, uint64_t case_idx, int nest = 0) {
   using namespace celma::prog_args;
   // evaluation order: program-argument file, environment, then argv with the argument file at the position of its first use
   std::vector<Use> order; std::vector<bool> counts;
   for (size_t i = 0; i < uses.size(); ++i) if (src[i] == PROGFILE) { order.push_back(uses[i]); counts.push_back(false); }
   if (nest == 2) for (size_t i = 0; i < uses.size(); ++i) if (src[i] == ARGFILE) { order.push_back(uses[i]); counts.push_back(false); }
   for (size_t i = 0; i < uses.size(); ++i) if (src[i] == ENV) { order.push_back(uses[i]); counts.push_back(false); }
   if (nest == 1) for (size_t i = 0; i < uses.size(); ++i) if (src[i] == ARGFILE) { order.push_back(uses[i]); counts.push_back(false); }
   bool argfile_done = nest != 0; std::vector<std::string> argv_words; std::string argfile_path = g_home + "/extra.args";
   std::vector<std::vector<std::string>> pf_words, af_words, env_words;
   for (size_t i = 0; i < uses.size(); ++i) {
      auto forms = spell_use(cfg, uses[i], false); if (forms.empty()) return;
      const std::vector<std::string>& w = forms[i % forms.size()];       // spelling varies with the position
      if (src[i] == PROGFILE) pf_words.push_back(w); else if (src[i] == ENV) env_words.push_back(w);
      else if (src[i] == ARGFILE) { af_words.push_back(w); if (!argfile_done) { argfile_done = true; argv_words.push_back("--arg-file"); argv_words.push_back(argfile_path);
            for (size_t j = i; j < uses.size(); ++j) if (src[j] == ARGFILE) { order.push_back(uses[j]); counts.push_back(false); } } }
      else { argv_words.insert(argv_words.end(), w.begin(), w.end()); order.push_back(uses[i]); counts.push_back(true); }
   }
   Verdict v = evaluate_sources(cfg, order, counts);
   if (v.k == UNSPEC) { vf::count("skipped_unspecified"); return; }
   // set the sources up (escape style of quoted words: follows the decoration index, so that all 4 styles are written to files and the environment)
   g_quote_style = (deco + layout + int(uses.size())) % 4;
   std::string pa = g_home + "/.progargs/prog.pa"; unlink(pa.c_str()); unlink(argfile_path.c_str());
   if (nest == 2 && !af_words.empty()) pf_words.push_back({"--arg-file", argfile_path});
   if (nest == 1 && !af_words.empty()) env_words.push_back({"--arg-file", argfile_path});
   if (!pf_words.empty()) write_file(pa, pf_words, layout, deco);
   if (!af_words.empty()) write_file(argfile_path, af_words, layout, deco);
   if (!env_words.empty()) { std::vector<std::string> all; for (auto& u : env_words) all.insert(all.end(), u.begin(), u.end()); setenv("PROG", join_words(all).c_str(), 1); } else unsetenv("PROG");
   // the real handler
   Outcome o; {
      std::unique_ptr<Built> b(new Built); b->slots.resize(cfg.args.size()); b->targs.resize(cfg.args.size(), nullptr);
      b->h.reset(new Handler(b->out, b->err, Handler::hfReadProgArg | Handler::hfEnvVarArgs));
      std::vector<int> all; for (size_t i = 0; i < cfg.args.size(); ++i) all.push_back(int(i));
      add_arguments(cfg, *b->h, b->slots, b->targs, all); add_hconstraints(cfg, *b->h, cfg.hcs);
      b->h->addArgumentFile("arg-file");
      Argv av(argv_words, "/usr/local/bin/prog");
      try { b->h->evalArguments(av.argc(), av.argv()); } catch (const std::exception& e) { o.kind = 1; o.what = e.what(); } catch (...) { o.kind = 2; o.what = "non-std exception"; }
      o.snap = snapshot(cfg, b->slots);
   }
   ++g_evals; ++g_splits; vf::heartbeat(); vf::outcome(o.kind ? "rejected: " + o.what.substr(0, 60) : "accepted " + snap_text(o.snap).substr(0, 80));
   std::string srcs; for (int s : src) srcs += "APFE"[s]; if (nest) srcs += nest == 1 ? "(F via E)" : "(F via P)";
   bool override_case = false; for (size_t i = 0; i < uses.size(); ++i) for (size_t j = 0; j < uses.size(); ++j) if (i != j && uses[i].arg == uses[j].arg && src[i] != ARGV && src[j] == ARGV) override_case = true;
   if (override_case) ++g_overrides;
   if (v.k == INVALID) ++g_rejections;
   if (vf::verbose()) printf("  %s sources %s layout %d/%d argv %s -> model %s(%s) impl %s %s %s\n", uses_text(cfg, uses).c_str(), srcs.c_str(), layout, deco, words_text(argv_words).c_str(), v.k == VALID ? "valid" : "invalid", v.reason.c_str(), o.kind ? "throws" : "returns", o.what.c_str(), snap_text(o.snap).c_str());
   std::string ctx = cfg.text() + " uses " + uses_text(cfg, uses) + " delivered by " + srcs + " (A argv, P program-argument file, F argument file, E environment), file layout " + std::to_string(layout) + "/" + std::to_string(deco);
   std::set<char> used_src; for (int s : src) used_src.insert("APFE"[s]); std::string ss(used_src.begin(), used_src.end()); if (nest) ss += nest == 1 ? "+F-via-E" : "+F-via-P";
   if (v.k == VALID) {
      if (o.kind != 0) vf::violation("rejected|sources " + ss + (override_case ? "|override" : ""), ctx + ": rejected (" + o.what + ") although the same uses are valid", std::to_string(case_idx));
      else if (o.snap != v.snap) vf::violation("wrong-value|sources " + ss + (override_case ? "|override" : ""), ctx + ": destinations " + snap_text(o.snap) + " expected " + snap_text(v.snap), std::to_string(case_idx));
   } else if (o.kind == 0) vf::violation("accepted|" + v.reason + "|sources " + ss, ctx + ": breaks rule '" + v.reason + "' but was accepted", std::to_string(case_idx));
}

static void part2() {
   std::vector<std::pair<Cfg, std::vector<Use>>> setups;
   auto mkarg = [](char sk, const char* lk, Kind k) { Arg a; a.sk = sk; a.lk = lk; a.kind = k; return a; };
   auto use = [](int a, const char* v) { Use u; u.arg = a; if (v) { u.hasval = true; u.val = v; } return u; };
   { Cfg c; c.args = {mkarg('i', "input", INT), mkarg('s', "str", STR), mkarg('l', "list", VECINT), mkarg('v', "verbose", FLAG)};
     setups.push_back({c, {use(0, "5"), use(0, "-6"), use(1, "x y"), use(1, "a'b\"c"), use(1, "end "), use(1, "x #y"), use(2, "1,2"), use(2, "3"), use(3, nullptr)}}); }
   { Cfg c; Arg m = mkarg('m', "must", INT); m.mandatory = true; Check ck; ck.type = 3; ck.a = 3; ck.b = 7; m.checks = {ck}; Arg l = mkarg('l', "list", VECSTR); l.card = 2; l.cardA = 2;
     c.args = {m, l, mkarg('v', "verbose", FLAG)}; setups.push_back({c, {use(0, "3"), use(0, "7"), use(0, "6"), use(1, "a,b"), use(1, "c"), use(2, nullptr)}}); }
   { Cfg c; Arg n = mkarg('n', "numbers", VECINT); n.multival = true; n.card = 2; n.cardA = 2; c.args = {n, mkarg('v', "verbose", FLAG)};
     Use a = use(0, "1"); a.more = {"2"}; Use b = use(0, "3"); b.more = {"4"}; setups.push_back({c, {a, b, use(0, "5"), use(1, nullptr)}}); }
   { Cfg c; Arg l = mkarg('l', "list", VECSTR); l.card = 2; l.cardA = 2; Arg n = mkarg('n', "nums", VECINT); n.card = 3; n.cardA = 1; n.cardB = 3; c.args = {l, n, mkarg('v', "verbose", FLAG)};
     setups.push_back({c, {use(0, "a,b"), use(0, "c"), use(1, "1,2"), use(1, "3"), use(2, nullptr)}}); }
   const int depth = vf::deep() ? 4 : vf::thorough() ? 3 : 2;
   for (auto& su : setups) {
      const Cfg& cfg = su.first; const std::vector<Use>& alpha = su.second;
      for (int d = 0; d <= depth; ++d) {
         vf::Odometer od(std::vector<unsigned>(d, unsigned(alpha.size())));
         if (d == 0) { if (vf::want_case()) source_case(cfg, {}, {}, 0, 0, vf::current_case()); continue; }
         while (od.next()) {
            if (!vf::want_case()) continue;
            std::vector<Use> uses; for (int i = 0; i < d; ++i) uses.push_back(alpha[od[i]]);
            vf::note(cfg.text() + uses_text(cfg, uses));
            vf::Odometer so(std::vector<unsigned>(d, 4));
            while (so.next()) {
               std::vector<int> src; bool any_file = false; for (int i = 0; i < d; ++i) { src.push_back(int(so[i])); if (so[i] == PROGFILE || so[i] == ARGFILE) any_file = true; }
               for (int layout = 0; layout < (any_file ? 2 : 1); ++layout) for (int deco = 0; deco < (any_file ? 4 : 1); ++deco) source_case(cfg, uses, src, layout, deco, vf::current_case());
               bool has_af = false; for (int x : src) has_af = has_af || x == ARGFILE;
               if (has_af) for (int nest = 1; nest <= 2; ++nest) for (int layout = 0; layout < 2; ++layout) source_case(cfg, uses, src, layout, 0, vf::current_case(), nest);
            }
            vf::nontrivial_by_construction();
         }
      }
   }
   vf::sample("sources: uses <i,input=5> <s,str=x y> <l,list=1,2> delivered by every element of {argv, prog.pa, --arg-file, $PROG}^3, 2 file layouts x 4 comment/empty-line decorations");
}

int main(int argc, char** argv) {
   vf::init(argc, argv);
   char cwd[4096]; if (!getcwd(cwd, sizeof cwd)) return 3;
   g_home = std::string(cwd) + "/home"; mkdir(g_home.c_str(), 0755); mkdir((g_home + "/.progargs").c_str(), 0755); setenv("HOME", g_home.c_str(), 1);
   if (vf::replaying()) {
      std::string r = vf::replay_case();
      if (r.rfind("Q ", 0) == 0) { printf("replay of a quoting case: re-running the quoting enumeration verbosely is too long; line: %s\n", r.c_str()); }
      vf::ctx().only = strtoll(r.c_str(), nullptr, 10); vf::ctx().have_replay = false;
   }
   part1();
   part2();
   vf::count("evaluations", g_evals); vf::count("transitions", g_evals); vf::count("states", g_quote_cases + g_splits);
   vf::count("quoting_cases", g_quote_cases); vf::count("source_splits", g_splits); vf::count("override_cases", g_overrides); vf::count("rule_breaking_lines_via_sources", g_rejections);
   vf::nontrivial_by_construction(g_quote_cases);
   vf::outcome(g_overrides ? "overrides exercised" : "no overrides"); vf::outcome(g_rejections ? "rejections via file/env exercised" : "no rejections");
   vf::finish();
   return 0;
}
