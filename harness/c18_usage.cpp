// C18  The usage lists exactly the visible arguments, each once                          (engine E2 xenum)
//
// configuration : k arguments (k = 1, 2; thorough 3), each: key kind {short, long, short+long} x long-key length around the
//                 same-line threshold (MaxNameLength = 40 characters of "-x,--name" / "--name") x mandatory/optional x
//                 visibility {normal, hidden, deprecated, replaced-by, hidden+deprecated} x description {one word, 30 words,
//                 with explicit newline} x feature {none, value check, default display off, constraint};
//                 every argument's description carries a unique marker word MARKi
// display       : usage requested by -h or --help; print-hidden {off, handler flag, --print-hidden}; print-deprecated {off,
//                 handler flag, --print-deprecated}; contents {all, --help-short, --help-long}
//                 + single-argument help --help-arg=<spec> for every spelling of every defined key and for unknown keys
// oracle        : the text written to the handler's own stream is parsed into captions and entries (an entry line starts with
//                 exactly three blanks and a dash); reference visibility predicate straight from the property statement:
//                 visible <=> (not hidden or print-hidden) and (not deprecated/replaced or print-deprecated) and (contents all or
//                 has a key of the selected kind).  Every visible argument (the standard arguments included): exactly one entry
//                 with exactly its key text, under the right caption, whose block starts with the words of its description and
//                 contains "Default value:" / "Check:" / "Constraint:" exactly where configured; its marker occurs exactly once
//                 in the whole text. Invisible arguments: no entry, marker absent. No other entries. Captions at most once,
//                 present iff an entry of that class exists, mandatory first.
#include "engine/common.hpp"
#include "celma/prog_args.hpp"
#include <sstream>
using namespace celma::prog_args;

extern "C" void exit(int code) { fprintf(stderr, "UNEXPECTED-EXIT code %d\n", code); fflush(stderr); abort(); }

enum KeyKind { KS, KL, KSL };
enum Vis { NORMAL, HIDDEN, DEPRECATED, REPLACED, HIDDEN_DEPRECATED, NVIS };
enum Feat { FNONE, FCHECK, FNODEFAULT, FCONSTRAINT, NFEAT };
static const char* vis_name[] = {"normal", "hidden", "deprecated", "replaced", "hidden+deprecated"};
static const char* feat_name[] = {"", "check", "no-default", "constraint"};

struct UArg { int keykind = KS; int lklen = 3; bool mandatory = false; int vis = NORMAL; int desc = 0; int feat = FNONE; };
struct Display { bool longhelp = false; int hid = 0; int dep = 0; int contents = 0; };   // hid/dep: 0 off, 1 handler flag, 2 argument; contents 0 all 1 short 2 long

static const char shorts[] = {'a', 'b', 'c'};
static const char longinit[] = {'u', 'v', 'w'};
static std::string long_key(int i, int len) { std::string s(1, longinit[i]); while ((int)s.size() < len) s += (s.size() % 7 == 3 ? '-' : 'x'); if (s.back() == '-') s.back() = 'y'; return s; }
static std::string marker(int i) { return "MARK" + std::to_string(i); }
static std::string description(int i, int d) {
   switch (d) {
   case 0: return marker(i);
   case 1: { std::string s = "Sets the " + marker(i) + " value"; for (int w = 0; w < 27; ++w) s += (w % 5 == 4 ? " -o" : " word") + std::to_string(w); return s; }
   default: return "First line of " + marker(i) + "\nsecond line.\n- a list entry";
   }
}
static std::vector<std::string> words_of(const std::string& s) { std::vector<std::string> w; std::istringstream is(s); std::string x; while (is >> x) w.push_back(x); return w; }
static std::string arg_text(const std::vector<UArg>& as) {
   std::string s;
   for (size_t i = 0; i < as.size(); ++i) {
      const UArg& a = as[i];
      s += "{" + std::string(a.keykind == KS ? "short" : a.keykind == KL ? "long" : "short+long") + (a.keykind != KS ? " len=" + std::to_string(a.lklen) : "") + (a.mandatory ? " mandatory" : " optional") + " " + vis_name[a.vis] + " desc" + std::to_string(a.desc) + (a.feat ? std::string(" ") + feat_name[a.feat] : "") + "} ";
   }
   return s;
}
static std::string disp_text(const Display& d) {
   static const char* m[] = {"off", "flag", "arg"}; static const char* c[] = {"all", "short", "long"};
   return std::string(d.longhelp ? "--help" : "-h") + " hidden=" + m[d.hid] + " deprecated=" + m[d.dep] + " contents=" + c[d.contents];
}
static std::string key_all(const UArg& a, int i) {
   std::string s;
   if (a.keykind != KL) { s += "-"; s += shorts[i]; }
   if (a.keykind != KS) { if (!s.empty()) s += ","; s += "--" + long_key(i, a.lklen); }
   return s;
}

struct Expect { std::string key; bool mandatory; std::vector<std::string> desc_words; std::string mark; int want_default, want_check, want_constraint; std::string name; };   // want_*: 1 must, 0 must not, -1 don't care

struct Entry { std::string key; bool mandatory; std::vector<std::string> words; };
struct Parsed { std::vector<Entry> entries; int cap_m = 0, cap_o = 0; bool order_ok = true; bool has_usage = false; std::string stray; };
static Parsed parse_usage(const std::string& text) {
   Parsed p; std::istringstream is(text); std::string line; int section = -1; Entry* cur = nullptr;
   while (std::getline(is, line)) {
      if (line == "Usage:") { p.has_usage = true; continue; }
      if (line == "Mandatory arguments:") { ++p.cap_m; if (p.cap_o) p.order_ok = false; section = 1; cur = nullptr; continue; }
      if (line == "Optional arguments:") { ++p.cap_o; section = 0; cur = nullptr; continue; }
      if (line.empty()) { cur = nullptr; continue; }
      if (line.size() > 3 && line.compare(0, 3, "   ") == 0 && line[3] == '-') {
         if (section < 0) { p.stray = "entry before any caption: " + line; }
         p.entries.push_back(Entry()); cur = &p.entries.back(); cur->mandatory = section == 1;
         std::istringstream ls(line); ls >> cur->key; std::string w; while (ls >> w) cur->words.push_back(w);
         continue;
      }
      if (cur && line[0] == ' ') { std::istringstream ls(line); std::string w; while (ls >> w) cur->words.push_back(w); continue; }
      if (p.stray.empty()) p.stray = "line outside any entry: '" + line + "'";
   }
   return p;
}
static int count_occ(const std::string& text, const std::string& w) { int n = 0; for (size_t p = text.find(w); p != std::string::npos; p = text.find(w, p + 1)) ++n; return n; }
static bool contains_seq(const std::vector<std::string>& w, const std::vector<std::string>& seq) {
   if (seq.empty()) return true;
   for (size_t i = 0; i + seq.size() <= w.size(); ++i) { bool ok = true; for (size_t j = 0; j < seq.size() && ok; ++j) ok = w[i + j] == seq[j]; if (ok) return true; }
   return false;
}

static uint64_t g_evals = 0, g_help_arg = 0, g_refused = 0, g_entries_checked = 0, g_twoline = 0, g_sameline = 0;

struct Run { std::string out, err, exc; };
static Run run_handler(const std::vector<UArg>& as, const Display& d, const std::vector<std::string>& words, bool& refused) {
   Run r; refused = false;
   int flags = Handler::hfHelpShort | Handler::hfHelpLong | Handler::hfUsageCont | Handler::hfHelpArg;
   if (d.hid == 1) flags |= Handler::hfUsageHidden; if (d.hid == 2) flags |= Handler::hfArgHidden;
   if (d.dep == 1) flags |= Handler::hfUsageDeprecated; if (d.dep == 2) flags |= Handler::hfArgDeprecated;
   if (d.contents == 1) flags |= Handler::hfUsageShort; if (d.contents == 2) flags |= Handler::hfUsageLong;
   std::ostringstream out, err; int vars[3] = {40, 41, 42};
   std::vector<char*> argv; std::vector<std::string> store = words; argv.push_back(const_cast<char*>("prog")); for (auto& w : store) argv.push_back(&w[0]); argv.push_back(nullptr);
   {
      Handler h(out, err, flags);
      std::vector<detail::TypedArgBase*> targs;
      try {
         for (size_t i = 0; i < as.size(); ++i) {
            const UArg& a = as[i];
            std::string spec; if (a.keykind != KL) spec += shorts[i]; if (a.keykind != KS) { if (!spec.empty()) spec += ","; spec += long_key(i, a.lklen); }
            auto* t = h.addArgument(spec, DEST_VAR(vars[i]), description(i, a.desc));
            if (a.mandatory) t->setIsMandatory();
            if (a.vis == HIDDEN || a.vis == HIDDEN_DEPRECATED) t->setIsHidden();
            if (a.vis == DEPRECATED || a.vis == HIDDEN_DEPRECATED) t->setIsDeprecated();
            if (a.vis == REPLACED) t->setReplacedBy("-h");
            if (a.feat == FCHECK) t->addCheck(range(1, 100));
            if (a.feat == FNODEFAULT) t->setPrintDefault(false);
            targs.push_back(t);
         }
         for (size_t i = 0; i < as.size(); ++i) if (as[i].feat == FCONSTRAINT) {
            size_t o = (i + 1) % as.size(); const UArg& b = as[o]; std::string ospec = b.keykind == KL ? long_key(o, b.lklen) : std::string(1, shorts[o]);
            targs[i]->addConstraint(excludes(ospec));
         }
      } catch (const std::logic_error&) { refused = true; return r; }
        catch (const std::exception& e) { refused = true; return r; }
      try { h.evalArguments(int(argv.size()) - 1, argv.data()); } catch (const std::exception& e) { r.exc = e.what(); }
   }
   r.out = out.str(); r.err = err.str();
   ++g_evals; vf::heartbeat();
   return r;
}

static void viol(const std::string& sig, const std::string& what, const std::vector<UArg>& as, const std::string& how, const Run& r) {
   vf::violation(sig, what + "\n  arguments: " + arg_text(as) + "\n  request: " + how + "\n  --- usage text ---\n" + r.out.substr(0, 1500) + (r.err.empty() ? "" : "\n  --- error stream ---\n" + r.err.substr(0, 300)) + (r.exc.empty() ? "" : "\n  exception: " + r.exc), std::to_string(vf::current_case()));
}

static void check_usage(const std::vector<UArg>& as, const Display& d) {
   std::vector<std::string> words;
   if (d.hid == 2) words.push_back("--print-hidden");
   if (d.dep == 2) words.push_back("--print-deprecated");
   if (d.contents == 1) words.push_back("--help-short");
   if (d.contents == 2) words.push_back("--help-long");
   words.push_back(d.longhelp ? "--help" : "-h");
   std::string how = disp_text(d);
   vf::note(arg_text(as) + " | " + how);
   bool refused; Run r = run_handler(as, d, words, refused);
   if (refused) { ++g_refused; return; }
   if (vf::verbose()) printf("== %s | %s\n%s%s%s\n", arg_text(as).c_str(), how.c_str(), r.out.c_str(), r.err.c_str(), r.exc.c_str());
   const bool ph = d.hid != 0, pd = d.dep != 0;
   // ---- expected entries
   std::vector<Expect> exp, hiddenones;
   auto add_std = [&](const std::string& s, const std::string& l, const std::string& desc) {
      Expect e; e.mandatory = false; e.want_default = -1; e.want_check = 0; e.want_constraint = 0; e.name = "standard argument " + (l.empty() ? s : l);
      if (d.contents == 0) e.key = (s.empty() ? "" : "-" + s) + (s.empty() || l.empty() ? "" : ",") + (l.empty() ? "" : "--" + l);
      else if (d.contents == 1) { if (s.empty()) return; e.key = "-" + s; }
      else { if (l.empty()) return; e.key = "--" + l; }
      e.desc_words = words_of(desc); exp.push_back(e);
   };
   add_std("h", "help", "Prints the program usage.");
   add_std("", "help-arg", "Prints the usage for the given argument.");
   if (d.hid == 2) add_std("", "print-hidden", "Also print hidden arguments in the usage.");
   if (d.dep == 2) add_std("", "print-deprecated", "Also print deprecated and replaced arguments in the usage.");
   if (d.contents == 1) add_std("", "help-short", "Only print arguments with their short key in the usage.");
   if (d.contents == 2) add_std("", "help-long", "Only print arguments with their long key in the usage.");
   for (size_t i = 0; i < as.size(); ++i) {
      const UArg& a = as[i];
      bool hidden = a.vis == HIDDEN || a.vis == HIDDEN_DEPRECATED, depr = a.vis == DEPRECATED || a.vis == REPLACED || a.vis == HIDDEN_DEPRECATED;
      bool visible = (!hidden || ph) && (!depr || pd) && (d.contents == 0 || (d.contents == 1 && a.keykind != KL) || (d.contents == 2 && a.keykind != KS));
      Expect e; e.mandatory = a.mandatory; e.mark = marker(i); e.desc_words = words_of(description(i, a.desc)); e.name = "argument " + std::to_string(i);
      e.key = d.contents == 0 ? key_all(a, i) : d.contents == 1 ? std::string("-") + shorts[i] : "--" + long_key(i, a.lklen);
      e.want_default = (!a.mandatory && a.feat != FNODEFAULT) ? 1 : 0; e.want_check = a.feat == FCHECK; e.want_constraint = a.feat == FCONSTRAINT;
      (visible ? exp : hiddenones).push_back(e);
   }
   // ---- parse and compare
   Parsed p = parse_usage(r.out);
   std::string cfgsig = std::string(d.contents == 0 ? "all" : d.contents == 1 ? "short" : "long");
   if (!p.has_usage) { viol("no-usage-text|" + cfgsig, "no 'Usage:' text was written", as, how, r); return; }
   if (!p.stray.empty()) viol("unparsed-line|" + cfgsig, p.stray, as, how, r);
   size_t maxlen = 0; for (auto& e : exp) maxlen = std::max(maxlen, e.key.size()); (maxlen >= 40 ? g_twoline : g_sameline)++;
   bool any_m = false, any_o = false;
   for (auto& e : exp) {
      (e.mandatory ? any_m : any_o) = true; ++g_entries_checked;
      int n = 0; const Entry* hit = nullptr; for (auto& en : p.entries) if (en.key == e.key) { ++n; hit = &en; }
      std::string base = e.mark.empty() ? "standard-arg" : "arg";
      if (n == 0) { viol("visible-" + base + "-missing|" + cfgsig + "|" + (maxlen >= 40 ? "two-line" : "same-line"), e.name + " (key '" + e.key + "') is visible but has no entry", as, how, r); continue; }
      if (n > 1) { viol("visible-" + base + "-listed-twice|" + cfgsig, e.name + " (key '" + e.key + "') is listed " + std::to_string(n) + " times", as, how, r); continue; }
      if (hit->mandatory != e.mandatory) viol(base + "-under-wrong-caption|" + cfgsig, e.name + " is " + (e.mandatory ? "mandatory" : "optional") + " but listed under the other caption", as, how, r);
      if (hit->words.size() < e.desc_words.size() || !std::equal(e.desc_words.begin(), e.desc_words.end(), hit->words.begin()))
         viol(base + "-description-differs|" + cfgsig + "|" + (maxlen >= 40 ? "two-line" : "same-line"), e.name + ": the entry does not start with the words of its description", as, how, r);
      if (!e.mark.empty() && count_occ(r.out, e.mark) != 1) viol("marker-count|" + cfgsig, e.name + ": marker " + e.mark + " occurs " + std::to_string(count_occ(r.out, e.mark)) + " times in the usage", as, how, r);
      std::vector<std::string> tail(hit->words.begin() + std::min(hit->words.size(), e.desc_words.size()), hit->words.end());
      bool has_def = contains_seq(tail, {"Default", "value:"}), has_chk = contains_seq(tail, {"Check:"}), has_con = contains_seq(tail, {"Constraint:"});
      if (e.want_default >= 0 && has_def != (e.want_default == 1)) viol(std::string("default-value-") + (has_def ? "shown-but-not-configured" : "missing") + "|" + cfgsig, e.name + ": default value display is wrong", as, how, r);
      if (e.want_default == 1 && has_def && !e.mark.empty() && !contains_seq(tail, {"Default", "value:", std::to_string(40 + (e.mark.back() - '0'))})) viol("default-value-wrong|" + cfgsig, e.name + ": the default value shown is not the variable's value", as, how, r);
      if (has_chk != (e.want_check == 1)) viol(std::string("check-") + (has_chk ? "shown-but-not-configured" : "missing") + "|" + cfgsig, e.name + ": check display is wrong", as, how, r);
      if (has_con != (e.want_constraint == 1)) viol(std::string("constraint-") + (has_con ? "shown-but-not-configured" : "missing") + "|" + cfgsig, e.name + ": constraint display is wrong", as, how, r);
   }
   for (auto& e : hiddenones) {
      for (auto& en : p.entries) if (en.key == e.key) { viol("invisible-arg-listed|" + cfgsig, e.name + " (key '" + e.key + "') must not be listed under these settings", as, how, r); break; }
      if (count_occ(r.out, e.mark)) viol("invisible-arg-marker|" + cfgsig, e.name + ": its description appears although the argument is not visible", as, how, r);
   }
   if (p.entries.size() > exp.size()) {
      for (auto& en : p.entries) { bool known = false; for (auto& e : exp) known = known || e.key == en.key; for (auto& e : hiddenones) known = known || e.key == en.key; if (!known) { viol("unexpected-entry|" + cfgsig, "entry '" + en.key + "' belongs to no argument under these settings", as, how, r); break; } }
   }
   if (p.cap_m > 1 || p.cap_o > 1) viol("caption-twice|" + cfgsig, "a caption is printed more than once", as, how, r);
   if ((p.cap_m == 1) != any_m) viol(std::string("mandatory-caption-") + (any_m ? "missing" : "without-entries") + "|" + cfgsig, "mandatory caption does not match the entries", as, how, r);
   if ((p.cap_o == 1) != any_o) viol(std::string("optional-caption-") + (any_o ? "missing" : "without-entries") + "|" + cfgsig, "optional caption does not match the entries", as, how, r);
   if (!p.order_ok) viol("caption-order|" + cfgsig, "optional caption before mandatory caption", as, how, r);
   vf::outcome("entries=" + std::to_string(p.entries.size()) + " m=" + std::to_string(p.cap_m) + " o=" + std::to_string(p.cap_o) + (maxlen >= 40 ? " two-line" : " same-line"));
}

static void check_help_arg(const std::vector<UArg>& as) {
   Display d;
   struct Q { std::string spec; int arg; std::string form; };
   std::vector<Q> qs;
   for (size_t i = 0; i < as.size(); ++i) {
      const UArg& a = as[i]; std::string s(1, shorts[i]), l = long_key(i, a.lklen);
      if (a.keykind != KL) { qs.push_back({s, int(i), "short"}); qs.push_back({"-" + s, int(i), "dash-short"}); }
      if (a.keykind != KS) { qs.push_back({l, int(i), "long"}); qs.push_back({"--" + l, int(i), "dash-long"}); qs.push_back({l.substr(0, 2), int(i), "abbreviated-long"}); qs.push_back({l.substr(0, l.size() - 1), int(i), "abbreviated-long"}); }
      if (a.keykind == KSL) qs.push_back({s + "," + l, int(i), "both"});
   }
   qs.push_back({"z", -1, "unknown-short"}); qs.push_back({"zebra", -1, "unknown-long"}); qs.push_back({"help", -2, "standard"});
   for (auto& q : qs) for (int sep = 0; sep < 2; ++sep) {
      if (sep == 1 && q.spec[0] == '-') continue;      // a separate word with a dash is a key by definition
      std::vector<std::string> words = sep ? std::vector<std::string>{"--help-arg", q.spec} : std::vector<std::string>{"--help-arg=" + q.spec};
      std::string how = words[0] + (sep ? " " + words[1] : "");
      vf::note(arg_text(as) + " | " + how);
      bool refused; Run r = run_handler(as, d, words, refused); if (refused) { ++g_refused; return; }
      ++g_help_arg;
      if (vf::verbose()) printf("== %s | %s\n%s%s%s\n", arg_text(as).c_str(), how.c_str(), r.out.c_str(), r.err.c_str(), r.exc.c_str());
      bool said_unknown = r.err.find("unknown") != std::string::npos || r.exc.find("nknown") != std::string::npos;
      std::vector<std::string> ow = words_of(r.out);
      if (q.arg >= 0) {
         std::vector<std::string> dw = words_of(description(q.arg, as[q.arg].desc));
         if (said_unknown) viol("help-arg-known-reported-unknown|" + q.form, "argument " + std::to_string(q.arg) + " asked by '" + q.spec + "' is reported as unknown", as, how, r);
         else if (!contains_seq(ow, dw)) viol("help-arg-description-missing|" + q.form, "single-argument help for '" + q.spec + "' does not print the argument's description", as, how, r);
         for (size_t j = 0; j < as.size(); ++j) if (int(j) != q.arg && count_occ(r.out, marker(j))) viol("help-arg-other-description|" + q.form, "single-argument help for '" + q.spec + "' prints another argument's description", as, how, r);
      } else if (q.arg == -1) {
         if (!said_unknown) viol("help-arg-unknown-not-reported|" + q.form, "unknown key '" + q.spec + "' is not reported as unknown", as, how, r);
         for (size_t j = 0; j < as.size(); ++j) if (count_occ(r.out, marker(j))) viol("help-arg-unknown-prints-description|" + q.form, "unknown key '" + q.spec + "' prints a description", as, how, r);
      } else {
         if (said_unknown || !contains_seq(ow, words_of("Prints the program usage."))) viol("help-arg-standard|" + q.form, "help for the standard argument 'help' is not printed", as, how, r);
      }
      vf::outcome(std::string("help-arg ") + q.form + (said_unknown ? " unknown" : " described"));
   }
}

// single-argument help when one long key is a proper prefix of another one (input / input-file): the exact key must show its OWN
// description in both definition orders; an unambiguous abbreviation of the longer key shows the longer one's
static void check_help_arg_prefix_keys() {
   for (int order = 0; order < 2; ++order) for (int kk0 = 0; kk0 < 2; ++kk0) for (int kk1 = 0; kk1 < 2; ++kk1) for (int hidden = 0; hidden < 2; ++hidden) {
      struct Q { std::string spec; int arg; const char* form; };
      std::vector<Q> qs = {{"input", 0, "exact-shorter"}, {"--input", 0, "exact-shorter"}, {"input-file", 1, "exact-longer"}, {"input-f", 1, "abbreviated-longer"}, {"input-", 1, "abbreviated-longer"}};
      if (kk0) qs.push_back({"i", 0, "short"}); if (kk1) qs.push_back({"f", 1, "short"});
      for (auto& q : qs) for (int sep = 0; sep < 2; ++sep) {
         if (sep == 1 && q.spec[0] == '-') continue;
         std::ostringstream out, err; int v0 = 1, v1 = 2; std::string exc;
         std::vector<std::string> store = sep ? std::vector<std::string>{"--help-arg", q.spec} : std::vector<std::string>{"--help-arg=" + q.spec};
         std::vector<char*> argv; argv.push_back(const_cast<char*>("prog")); for (auto& w : store) argv.push_back(&w[0]); argv.push_back(nullptr);
         {
            Handler h(out, err, Handler::hfHelpShort | Handler::hfHelpLong | Handler::hfUsageCont | Handler::hfHelpArg);
            auto def0 = [&]() { auto* t = h.addArgument(kk0 ? "i,input" : "input", DEST_VAR(v0), "Description of MARK0 the shorter key"); if (hidden) t->setIsHidden(); };
            auto def1 = [&]() { h.addArgument(kk1 ? "f,input-file" : "input-file", DEST_VAR(v1), "Description of MARK1 the longer key"); };
            if (order) { def1(); def0(); } else { def0(); def1(); }
            try { h.evalArguments(int(argv.size()) - 1, argv.data()); } catch (const std::exception& e) { exc = e.what(); }
         }
         ++g_evals; ++g_help_arg; vf::heartbeat();
         std::string o = out.str(); bool own = o.find(q.arg == 0 ? "MARK0" : "MARK1") != std::string::npos, other = o.find(q.arg == 0 ? "MARK1" : "MARK0") != std::string::npos;
         std::string ctx = std::string("arguments ") + (order ? "{input-file} {input}" : "{input} {input-file}") + (kk0 ? " with short i" : "") + (kk1 ? " with short f" : "") + (hidden ? " (input hidden)" : "") + ", request " + store[0] + (sep ? " " + store[1] : "") + "\n  --- output ---\n" + o.substr(0, 400) + (err.str().empty() ? "" : "\n  --- error stream ---\n" + err.str().substr(0, 200)) + (exc.empty() ? "" : "\n  exception: " + exc);
         if (other) vf::violation(std::string("help-arg-other-description|prefix-keys|") + q.form + (order ? "|longer-first" : "|shorter-first"), "single-argument help prints the description of the OTHER argument: " + ctx, "prefix-keys");
         else if (!own) vf::violation(std::string("help-arg-description-missing|prefix-keys|") + q.form + (order ? "|longer-first" : "|shorter-first"), "single-argument help does not print the argument's description: " + ctx, "prefix-keys");
         vf::outcome(std::string("help-arg prefix-keys ") + q.form + (own ? " described" : " not described"));
      }
   }
}

int main(int argc, char** argv) {
   vf::init(argc, argv);
   if (vf::replaying()) { vf::ctx().only = vf::replay_case() == "prefix-keys" ? 0 : strtoll(vf::replay_case().c_str(), nullptr, 10); vf::ctx().have_replay = false; }
   const bool th = vf::thorough();
   // per-argument domains
   struct KeyShape { int kind, len; };
   // "-x,--" + n >= 40 <=> n >= 35 ; "--" + n >= 40 <=> n >= 38
   std::vector<KeyShape> shapes_full = {{KS, 0}, {KL, 3}, {KL, 37}, {KL, 38}, {KL, 45}, {KSL, 3}, {KSL, 34}, {KSL, 35}, {KSL, 45}};
   std::vector<KeyShape> shapes_thin = {{KS, 0}, {KL, 3}, {KL, 38}, {KSL, 3}, {KSL, 34}, {KSL, 35}};
   std::vector<Display> displays;
   for (int lh = 0; lh < 2; ++lh) for (int hid = 0; hid < 3; ++hid) for (int dep = 0; dep < 3; ++dep) for (int c = 0; c < 3; ++c) { Display d; d.longhelp = lh; d.hid = hid; d.dep = dep; d.contents = c; displays.push_back(d); }
   std::vector<Display> displays_thin;
   for (int hid = 0; hid < 3; hid += 2) for (int dep = 0; dep < 3; dep += 2) for (int c = 0; c < 3; ++c) { Display d; d.hid = hid; d.dep = dep; d.contents = c; displays_thin.push_back(d); }

   auto expand = [&](const std::vector<UArg>& as, const std::vector<Display>& ds, bool helparg) {
      for (auto& d : ds) check_usage(as, d);
      if (helparg) check_help_arg(as);
      vf::nontrivial_by_construction();
   };
   // ---- prefix-related long keys in the single-argument help (one case)
   if (vf::want_case()) { vf::note("help-arg with prefix-related keys"); check_help_arg_prefix_keys(); vf::nontrivial_by_construction(); }
   // ---- k = 1: full per-argument domain
   for (auto& sh : shapes_full) for (int m = 0; m < 2; ++m) for (int v = 0; v < NVIS; ++v) for (int ds = 0; ds < 3; ++ds) for (int f = 0; f < NFEAT; ++f) {
      if (f == FCONSTRAINT) continue;
      if (!vf::want_case()) continue;
      UArg a; a.keykind = sh.kind; a.lklen = sh.len; a.mandatory = m; a.vis = v; a.desc = ds; a.feat = f;
      expand({a}, displays, true);
      if (vf::current_case() % 97 == 0) vf::sample(arg_text({a}) + " x 54 display settings + single-argument help in every key spelling");
   }
   // ---- k = 2: (shape x mandatory x visibility) for both; description/feature varied on the first (thorough: all, quick: a diagonal)
   for (auto& s0 : shapes_full) for (int m0 = 0; m0 < 2; ++m0) for (int v0 = 0; v0 < NVIS; ++v0)
   for (auto& s1 : shapes_full) for (int m1 = 0; m1 < 2; ++m1) for (int v1 = 0; v1 < NVIS; ++v1) {
      if (!vf::want_case()) continue;
      UArg a, b; a.keykind = s0.kind; a.lklen = s0.len; a.mandatory = m0; a.vis = v0; b.keykind = s1.kind; b.lklen = s1.len; b.mandatory = m1; b.vis = v1;
      if (th) {
         for (int ds = 0; ds < 3; ++ds) for (int f = 0; f < NFEAT; ++f) { a.desc = ds; a.feat = f; b.desc = (ds + 1) % 3; expand({a, b}, displays, ds == 0 && f == 0); }
      } else {
         unsigned k = unsigned(vf::current_case()); a.desc = k % 3; a.feat = (k / 3) % NFEAT; b.desc = (k / 12) % 3; b.feat = (k / 36) % 3;
         expand({a, b}, displays, (k % 4) == 0);
      }
      if (vf::current_case() % 997 == 0) vf::sample(arg_text({a, b}) + " x display settings");
      if (vf::deadline_hit()) break;
   }
   // ---- k = 3 (thorough): thinned shapes, 4 visibilities, 12 display settings
   if (th) for (auto& s0 : shapes_thin) for (int m0 = 0; m0 < 2; ++m0) for (int v0 = 0; v0 < 4; ++v0)
   for (auto& s1 : shapes_thin) for (int m1 = 0; m1 < 2; ++m1) for (int v1 = 0; v1 < 4; ++v1) {
      if (!vf::want_case()) continue;
      for (auto& s2 : shapes_thin) for (int m2 = 0; m2 < 2; ++m2) for (int v2 = 0; v2 < 4; ++v2) {
         UArg a, b, c; a.keykind = s0.kind; a.lklen = s0.len; a.mandatory = m0; a.vis = v0; b.keykind = s1.kind; b.lklen = s1.len; b.mandatory = m1; b.vis = v1; c.keykind = s2.kind; c.lklen = s2.len; c.mandatory = m2; c.vis = v2;
         unsigned k = unsigned(vf::current_case()) + v2; a.desc = k % 3; b.desc = (k / 3) % 3; c.desc = (k / 9) % 3; c.feat = (k / 27) % NFEAT;
         expand({a, b, c}, displays_thin, false);
      }
      if (vf::deadline_hit()) break;
   }
   vf::count("evaluations", g_evals); vf::count("transitions", g_evals); vf::count("states", g_evals);
   vf::count("single_argument_help_requests", g_help_arg); vf::count("definitions_refused_by_library", g_refused); vf::count("visible_entries_checked", g_entries_checked);
   vf::count("usages_in_two_line_layout", g_twoline); vf::count("usages_in_same_line_layout", g_sameline);
   vf::finish();
   return 0;
}
