// C05  A key designates exactly one argument, independent of definition order            (engine E2 xenum)
//
// alphabet : key specifications from a pool with prefix-related long keys: short only {a,b}, long only {in,inp,input,out},
//            and all 8 short/long pairs; written with 0/1/2 leading dashes and in both orders ("a,in" / "--in,-a").
//            ALL sequences (= sets in every definition order) of <= 3 (quick) / <= 4 (thorough) specifications,
//            abbreviations enabled and disabled; sequences of <= 3 also with every argument defined as a sub-group opener.
// oracle   : (i) definition: adding a specification is refused iff it shares its short or its long key with an earlier
//                accepted one (4-line set model), accepted otherwise;
//            (ii) lookup on the accepted set: every exact key selects its own argument; every proper prefix (>= 2
//                characters, not itself a defined key) of every long key selects the unique extension iff abbreviations
//                are enabled and exactly one long key starts with it, and is rejected otherwise.
#include "harness/args.hpp"
using namespace hc;

struct Spec { char sk; const char* lk; };
static const Spec POOL[] = {{'a', ""}, {'b', ""}, {0, "in"}, {0, "inp"}, {0, "input"}, {0, "out"},
                            {'a', "in"}, {'a', "inp"}, {'a', "input"}, {'a', "out"}, {'b', "in"}, {'b', "inp"}, {'b', "input"}, {'b', "out"}};
static const int NPOOL = 14;
static uint64_t g_evals = 0, g_defs = 0, g_refused = 0, g_lookups = 0, g_abbr_hits = 0, g_ambiguous = 0;

static std::string written(const Spec& s, int variant) {
   std::string sk = s.sk ? std::string(1, s.sk) : "", lk = s.lk;
   if (s.sk && !lk.empty()) { switch (variant % 4) { case 0: return sk + "," + lk; case 1: return lk + "," + sk; case 2: return "-" + sk + ",--" + lk; default: return "--" + lk + ",-" + sk; } }
   if (s.sk) return variant % 2 ? "-" + sk : sk;
   switch (variant % 3) { case 0: return lk; case 1: return "--" + lk; default: return "-" + lk; }
}

// sub == true: every argument opens a sub-group (addArgument(spec, subHandler, desc)); each sub-handler has one argument -q
// writing to the variable of its opener, so "<key> -q 5" shows which opener the key selected.
static void run_sequence(const std::vector<int>& seq, bool abbr, int variant_base, uint64_t case_idx, bool sub = false) {
   using namespace celma::prog_args;
   std::ostringstream out, err, so, se;
   const int flags = abbr ? 0 : Handler::hfNoAbbr; const std::string sfx = sub ? "|subgroup" : "";
   Handler h(out, err, flags);
   std::vector<std::unique_ptr<Handler>> subs;
   auto define = [&](Handler& hh, const std::string& w, int& var, const std::string& vname) {
      if (!sub) { hh.addArgument(w, destination(var, vname), "desc"); return; }
      subs.emplace_back(new Handler(so, se, flags)); subs.back()->addArgument("q", destination(var, vname), "desc");
      hh.addArgument(w, *subs.back(), "desc");
   };
   std::vector<int> vars(seq.size(), -777); std::vector<int> accepted; std::set<char> shorts; std::set<std::string> longs;
   std::string desc;
   for (size_t i = 0; i < seq.size(); ++i) {
      const Spec& s = POOL[seq[i]]; std::string w = written(s, variant_base + int(i) * 5 + seq[i]);
      bool expect_refuse = (s.sk && shorts.count(s.sk)) || (s.lk[0] && longs.count(s.lk));
      bool refused = false; std::string what;
      try { define(h, w, vars[i], "v" + std::to_string(i)); } catch (const std::exception& e) { refused = true; what = e.what(); }
      ++g_defs; ++g_evals; desc += std::string(sub ? "sub-group " : "") + "'" + w + "'" + (refused ? "(refused) " : " ");
      if (vf::verbose()) printf("  define %s -> %s %s\n", w.c_str(), refused ? "refused" : "accepted", what.c_str());
      if (refused != expect_refuse) {
         vf::violation(std::string(expect_refuse ? "duplicate-accepted" : "distinct-refused") + "|" + (s.sk ? "s" : "") + (s.lk[0] ? "l" : "") + sfx, "definitions " + desc + ": specification '" + w + "' " + (refused ? "was refused (" + what + ") although neither its short nor its long key is taken" : "was accepted although its short or long key is already taken"), std::to_string(case_idx));
         return;
      }
      if (refused) { ++g_refused; continue; }
      accepted.push_back(int(i)); if (s.sk) shorts.insert(s.sk); if (s.lk[0]) longs.insert(s.lk);
   }
   // ---- lookups: one-argument command lines
   auto lookup = [&](const std::string& word, int expect_idx /* index into seq, or -1: must throw */, const std::string& what) {
      for (int& v : vars) v = -777;
      Argv av({word, "5"}); bool threw = false; std::string msg;
      try { h.evalArguments(av.argc(), av.argv()); } catch (const std::exception& e) { threw = true; msg = e.what(); } catch (...) { threw = true; msg = "non-std exception"; }
      ++g_lookups; ++g_evals; vf::heartbeat();
      int got = -1, n = 0; for (size_t i = 0; i < vars.size(); ++i) if (vars[i] == 5) { got = int(i); ++n; }
      if (vf::verbose()) printf("  lookup %s 5 -> %s, variable %d %s\n", word.c_str(), threw ? "throws" : "returns", got, msg.c_str());
      std::string ctx = "definitions " + desc + (abbr ? "" : "[no-abbr] ") + "line '" + word + " 5'";
      if (expect_idx < 0) { if (!threw) vf::violation("accepted|" + what, ctx + ": must be rejected (" + what + ") but the value went to argument #" + std::to_string(got), std::to_string(case_idx)); }
      else if (threw) vf::violation("rejected|" + what, ctx + ": " + what + " of argument #" + std::to_string(expect_idx) + " rejected: " + msg, std::to_string(case_idx));
      else if (got != expect_idx || n != 1) vf::violation("wrong-argument|" + what, ctx + ": value went to argument #" + std::to_string(got) + " instead of #" + std::to_string(expect_idx), std::to_string(case_idx));
   };
   // a Handler object is meant to be evaluated once: cardinality counters survive. Use a fresh handler per lookup instead.
   (void)lookup;
   for (int ai : accepted) {
      const Spec& s = POOL[seq[ai]];
      std::vector<std::pair<std::string, std::string>> probes;   // word, kind
      if (s.sk) probes.push_back({std::string("-") + s.sk, "exact short key"});
      if (s.lk[0]) probes.push_back({std::string("--") + s.lk, "exact long key"});
      std::string lk = s.lk;
      for (size_t n = 2; n < lk.size(); ++n) probes.push_back({"--" + lk.substr(0, n), "prefix"});
      for (auto& pr : probes) {
         int expect = ai; std::string what = pr.second;
         if (pr.second == "prefix") {
            std::string p = pr.first.substr(2); bool is_key = false; std::vector<int> ext;
            for (int aj : accepted) { std::string l2 = POOL[seq[aj]].lk; if (l2 == p) is_key = true; if (l2.size() > 0 && l2.compare(0, p.size(), p) == 0) ext.push_back(aj); }
            if (is_key) continue;                    // this word is an exact key of another argument: covered there
            if (!abbr) { expect = -1; what = "abbreviation while abbreviations are disabled"; }
            else if (ext.size() == 1) { expect = ext[0]; what = "unique abbreviation"; ++g_abbr_hits; }
            else { expect = -1; what = "ambiguous abbreviation"; ++g_ambiguous; }
         }
         // fresh handler with the accepted definitions in the same order
         std::ostringstream o2, e2; Handler h2(o2, e2, flags); std::vector<int> v2(seq.size(), -777);
         for (int aj : accepted) define(h2, written(POOL[seq[aj]], variant_base + aj * 5 + seq[aj]), v2[aj], "v" + std::to_string(aj));
         Argv av(sub ? std::vector<std::string>{pr.first, "-q", "5"} : std::vector<std::string>{pr.first, "5"}); bool threw = false; std::string msg;
         try { h2.evalArguments(av.argc(), av.argv()); } catch (const std::exception& e) { threw = true; msg = e.what(); } catch (...) { threw = true; msg = "non-std exception"; }
         ++g_lookups; ++g_evals; vf::heartbeat();
         int got = -1, n = 0; for (size_t i = 0; i < v2.size(); ++i) if (v2[i] == 5) { got = int(i); ++n; }
         if (vf::verbose()) printf("  lookup %s 5 -> %s, variable %d %s\n", pr.first.c_str(), threw ? "throws" : "returns", got, msg.c_str());
         std::string ctx = "definitions " + desc + (abbr ? "" : "[no-abbr] ") + "line '" + pr.first + (sub ? " -q" : "") + " 5'";
         what += sfx;
         if (expect < 0) { if (!threw) vf::violation("accepted|" + what, ctx + ": must be rejected (" + what + ") but the value went to argument #" + std::to_string(got), std::to_string(case_idx)); }
         else if (threw) vf::violation("rejected|" + what, ctx + ": " + what + " of argument #" + std::to_string(expect) + " rejected: " + msg, std::to_string(case_idx));
         else if (got != expect || n != 1) vf::violation("wrong-argument|" + what, ctx + ": value went to argument #" + std::to_string(got) + " instead of #" + std::to_string(expect), std::to_string(case_idx));
      }
   }
}

int main(int argc, char** argv) {
   vf::init(argc, argv);
   if (vf::replaying()) { vf::ctx().only = strtoll(vf::replay_case().c_str(), nullptr, 10); vf::ctx().have_replay = false; }
   int maxlen = vf::deep() ? 6 : vf::thorough() ? 5 : 4; uint64_t seqs = 0;
   for (int len = 1; len <= maxlen; ++len) {
      vf::Odometer od(std::vector<unsigned>(len, NPOOL));
      while (od.next()) {
         bool distinct_idx = true; for (int i = 0; i < len; ++i) for (int j = i + 1; j < len; ++j) if (od[i] == od[j] && len > 2) distinct_idx = false;   // identical spec twice is covered by the pairs
         if (!distinct_idx) continue;
         for (int abbr = 0; abbr < 2; ++abbr) {
            if (!vf::want_case()) continue;
            std::vector<int> seq; for (int i = 0; i < len; ++i) seq.push_back(int(od[i]));
            int nvar = len <= 2 ? 4 : 1;       // short sequences: every written variant; longer ones: variants rotate with the position
            for (int var = 0; var < nvar; ++var) run_sequence(seq, abbr != 0, var, vf::current_case());
            if (len <= 3) run_sequence(seq, abbr != 0, 0, vf::current_case(), true);      // the same keys as sub-group openers
            ++seqs; vf::nontrivial_by_construction();
            if (seqs % 997 == 1) { std::string t; for (int x : seq) t += written(POOL[x], 0) + " "; vf::sample("definition order: " + t + (abbr ? "" : "[no-abbr]") + "; lookups: every exact key and every prefix >= 2 characters of every long key"); }
         }
         if (vf::stop_enumeration()) break;
      }
   }
   vf::count("evaluations", g_evals); vf::count("transitions", g_evals); vf::count("states", seqs);
   vf::count("definitions", g_defs); vf::count("definitions_refused_as_expected", g_refused); vf::count("lookups", g_lookups);
   vf::count("lookups_unique_abbreviation", g_abbr_hits); vf::count("lookups_ambiguous_abbreviation", g_ambiguous);
   vf::outcome("refused definitions: " + std::string(g_refused ? "yes" : "no")); vf::outcome("unique abbreviations: " + std::string(g_abbr_hits ? "yes" : "no")); vf::outcome("ambiguous abbreviations: " + std::string(g_ambiguous ? "yes" : "no"));
   vf::finish();
   return 0;
}
