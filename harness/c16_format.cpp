// C16  Every delivered log message is rendered exactly as its format definition says     (engine E2 xenum)
//
// definitions : built through the REAL formatting::Creator stream interface: every sequence of <= 2 (quick) / <= 3 (thorough) items
//               over the 16 field kinds (constant text, date, time, time_ms, time_us, date_time, pid, thread id, line, function, file,
//               level, class, error number, text, attribute), each preceded by every combination of width {0,3,12}, alignment
//               {right, left} and custom format string {none, "%H:%M", "%d.%m.%Y"} (the format string is given before EVERY kind of
//               field: it must apply to the next field only and must not leak to a later one); automatic separator {none, "|", " - "}
//               set in the constructor and optionally changed before any later item
// messages    : levels x classes x texts {"", "x", "two words"} x time stamps {0, 86399.999999, 86400 (day boundary), 10^9 + 123456 us}
//               x error numbers / line numbers (full product for single-field definitions, 6 diagonal messages otherwise); TZ=UTC
// attributes  : every sequence of <= 4 (quick) / <= 5 (thorough) operations over {global add k=1, k=2, q=1; global remove k; open scoped
//               k=1, k=2, q=1; close the innermost scope}; after every operation a message is rendered with definition
//               attribute(k) "/" attribute(q), with message-own attributes {none, own k=3, own q=3, own q=3 with outer k=4}
// oracle      : independent renderer: items in definition order, the separator in effect between any two items, constant text verbatim,
//               std::setw-style padding to the width (never truncating), alignment, date/time computed by civil-calendar arithmetic
//               (no strftime), numbers by std::to_string; attribute = message's own value (inner before outer) else the most recently
//               defined global/scoped value that has not been removed / whose scope has not ended
// delivery    : the text is taken from a real detail::LogDestStream with the real formatting::Format installed (handleMessage)
#include "engine/common.hpp"
#include "celma/log/formatting/creator.hpp"
#include "celma/log/formatting/definition.hpp"
#include "celma/log/formatting/format.hpp"
#include "celma/log/detail/log_dest_stream.hpp"
#include "celma/log/detail/log_msg.hpp"
#include "celma/log/detail/log_scoped_attribute.hpp"
#include "celma/log/log_attributes.hpp"
#include "celma/log/logging.hpp"
#include <sstream>
#include <memory>
using namespace celma::log;
namespace clf = celma::log::formatting;

enum Kind { K_CONST, K_DATE, K_TIME, K_MS, K_US, K_DATETIME, K_PID, K_TID, K_LINE, K_FUNC, K_FILE, K_LEVEL, K_CLASS, K_ERRNR, K_TEXT, K_ATTR, NKINDS };
static const char* kind_name[] = {"const", "date", "time", "time_ms", "time_us", "date_time", "pid", "thread_id", "line_nbr", "func_name", "filename", "level", "log_class", "error_nbr", "text", "attribute"};
static const char* fmts[] = {"", "%H:%M", "%d.%m.%Y"};
static const char* seps[] = {"", "|", " - "};
struct Item { int kind, width, left, fmt; int sep_before; };      // sep_before: -1 = separator unchanged, else index into seps set right before this item's options
struct Def { int sep0; std::vector<Item> items; };
static std::string def_text(const Def& d) {
   std::string s = std::string("Creator(sep='") + seps[d.sep0] + "')";
   for (auto& it : d.items) {
      if (it.sep_before >= 0) s += std::string(" << separator('") + seps[it.sep_before] + "')";
      if (it.fmt) s += std::string(" << formatString('") + fmts[it.fmt] + "')";
      if (it.left) s += " << left"; if (it.width) s += " << " + std::to_string(it.width);
      s += std::string(" << ") + (it.kind == K_CONST ? "\"<c>\"" : it.kind == K_ATTR ? "attribute('k')" : kind_name[it.kind]);
   }
   return s;
}
struct Msg { int level, cls; std::string text; long long us; int errnr, line; };
static std::string msg_text(const Msg& m) { return "msg(level=" + std::to_string(m.level) + " class=" + std::to_string(m.cls) + " text='" + m.text + "' t=" + std::to_string(m.us) + "us errnr=" + std::to_string(m.errnr) + " line=" + std::to_string(m.line) + ")"; }

// ---- reference calendar (days -> civil), independent of libc
static void civil(long long days, int& y, int& m, int& d) { long long z = days + 719468; long long era = (z >= 0 ? z : z - 146096) / 146097; unsigned doe = unsigned(z - era * 146097); unsigned yoe = (doe - doe / 1460 + doe / 36524 - doe / 146096) / 365; y = int(yoe) + int(era) * 400; unsigned doy = doe - (365 * yoe + yoe / 4 - yoe / 100); unsigned mp = (5 * doy + 2) / 153; d = int(doy - (153 * mp + 2) / 5 + 1); m = int(mp < 10 ? mp + 3 : mp - 9); if (m <= 2) ++y; }
static std::string two(int v) { char b[8]; snprintf(b, sizeof b, "%02d", v); return b; }
static std::string ref_time(long long secs, const std::string& fmt) {
   long long days = secs / 86400, rem = secs % 86400; int y, mo, d; civil(days, y, mo, d); int H = int(rem / 3600), M = int(rem % 3600 / 60), S = int(rem % 60);
   char yb[16]; snprintf(yb, sizeof yb, "%04d", y);
   if (fmt == "%F") return std::string(yb) + "-" + two(mo) + "-" + two(d);
   if (fmt == "%T") return two(H) + ":" + two(M) + ":" + two(S);
   if (fmt == "%F %T") return ref_time(secs, "%F") + " " + ref_time(secs, "%T");
   if (fmt == "%H:%M") return two(H) + ":" + two(M);
   if (fmt == "%d.%m.%Y") return two(d) + "." + two(mo) + "." + yb;
   return "?";
}
static std::string pad(const std::string& s, int width, bool left) { if (int(s.size()) >= width) return s; std::string p(width - s.size(), ' '); return left ? s + p : p + s; }

static uint64_t g_renders = 0, g_defs = 0, g_attr_hist = 0;

static std::string render_real(const Def& d, const detail::LogMsg& m) {
   clf::Definition def; {
      clf::Creator c(def, d.sep0 ? seps[d.sep0] : nullptr);
      for (auto& it : d.items) {
         if (it.sep_before >= 0) c << clf::separator(seps[it.sep_before]);
         if (it.fmt) c << clf::formatString(fmts[it.fmt]);
         if (it.left) c << clf::left;
         if (it.width) c << it.width;
         switch (it.kind) {
         case K_CONST: c << std::string("<c>"); break; case K_DATE: c << clf::date; break; case K_TIME: c << clf::time; break; case K_MS: c << clf::time_ms; break;
         case K_US: c << clf::time_us; break; case K_DATETIME: c << clf::date_time; break; case K_PID: c << clf::pid; break; case K_TID: c << clf::thread_id; break;
         case K_LINE: c << clf::line_nbr; break; case K_FUNC: c << clf::func_name; break; case K_FILE: c << clf::filename; break; case K_LEVEL: c << clf::level; break;
         case K_CLASS: c << clf::log_class; break; case K_ERRNR: c << clf::error_nbr; break; case K_TEXT: c << clf::text; break; case K_ATTR: c << clf::attribute("k"); break;
         }
      }
   }
   std::ostringstream os; detail::LogDestStream dest(os); dest.setFormatter(new clf::Format(def));
   dest.handleMessage(m); ++g_renders; vf::heartbeat();
   return os.str();
}
static std::string attr_ref_k;      // reference value of attribute k for plain definitions (no attributes defined: empty)
static std::string render_ref(const Def& d, const Msg& mm, const detail::LogMsg& m) {
   static const char* lv[] = {"undefined", "Fatal Error", "Error", "Warning", "Info", "Debug", "Full Debug"};
   static const char* cl[] = {"undefined", "SysCall", "Data", "Communication", "Application", "Accounting", "Operator Action"};
   std::string out; int sep = d.sep0; bool first = true;
   for (auto& it : d.items) {
      if (it.sep_before >= 0) sep = it.sep_before;
      if (!first) out += seps[sep]; first = false;
      long long secs = mm.us / 1000000, sub = mm.us % 1000000; std::string v; char b[64];
      switch (it.kind) {
      case K_CONST: v = "<c>"; break;
      case K_DATE: v = ref_time(secs, it.fmt ? fmts[it.fmt] : "%F"); break;
      case K_TIME: v = ref_time(secs, it.fmt ? fmts[it.fmt] : "%T"); break;
      case K_DATETIME: v = ref_time(secs, it.fmt ? fmts[it.fmt] : "%F %T"); break;
      case K_MS: snprintf(b, sizeof b, "%03lld", sub / 1000); v = b; break;
      case K_US: snprintf(b, sizeof b, "%06lld", sub); v = b; break;
      case K_PID: v = std::to_string(m.getProcessId()); break;
      case K_TID: snprintf(b, sizeof b, "0x%lx", (unsigned long)m.getThreadId()); v = b; break;
      case K_LINE: v = std::to_string(mm.line); break;
      case K_FUNC: v = m.getFunctionName(); break;
      case K_FILE: v = "source.cpp"; break;
      case K_LEVEL: v = lv[mm.level]; break;
      case K_CLASS: v = cl[mm.cls]; break;
      case K_ERRNR: v = std::to_string(mm.errnr); break;
      case K_TEXT: v = mm.text; break;
      case K_ATTR: v = attr_ref_k; break;
      }
      out += pad(v, it.width, it.left);
   }
   return out;
}
static detail::LogMsg make_msg(const Msg& mm) {
   detail::LogMsg m("/some/dir/source.cpp", "void ns::Klass::method(int)", mm.line);
   m.setLevel(LogLevel(mm.level)); m.setClass(LogClass(mm.cls)); m.setText(mm.text); m.setErrorNumber(mm.errnr);
   m.mTimestamp = std::chrono::system_clock::time_point(std::chrono::duration_cast<std::chrono::system_clock::duration>(std::chrono::microseconds(mm.us)));
   return m;
}
static std::string item_sig(const Item& it) { return std::string(kind_name[it.kind]) + (it.width ? "+width" : "") + (it.left ? "+left" : "") + (it.fmt ? "+fmt" : "") + (it.sep_before >= 0 ? "+sepchange" : ""); }
static void check(const Def& d, const Msg& mm, const std::string& family) {
   detail::LogMsg m = make_msg(mm);
   std::string real = render_real(d, m), ref = render_ref(d, mm, m);
   if (real != ref) {
      // signature: the first item at which the two texts part (approximate attribution: kinds + options of the definition)
      std::string sig = family + "|sep" + (d.sep0 ? "+" : "-"); for (auto& it : d.items) sig += "|" + item_sig(it);
      vf::violation(sig, "rendered text differs\n  definition: " + def_text(d) + "\n  message: " + msg_text(mm) + "\n  implementation: '" + real + "'\n  reference:      '" + ref + "'", std::to_string(vf::current_case()));
   }
   vf::outcome(real);
   if (vf::verbose()) printf("  %s | %s -> '%s'\n", def_text(d).c_str(), msg_text(mm).c_str(), real.c_str());
}

// ---------------------------------------------------------------- attribute histories
struct AOp { char type; char name; int value; };       // 'G' global add, 'R' global remove, 'S' open scoped, '}' close
static std::string aop_text(const AOp& o) { if (o.type == '}') return "}"; if (o.type == 'R') return std::string("remove(") + o.name + ")"; return std::string(o.type == 'G' ? "add(" : "scoped{(") + o.name + "=" + std::to_string(o.value) + ")"; }
static std::string ahist_text(const std::vector<AOp>& h) { std::string s; for (auto& o : h) s += (s.empty() ? "" : " ") + aop_text(o); return s; }
struct RefAttr { char name; int value; bool scoped; int id; };
static void check_attr_history(const std::vector<AOp>& h) {
   ++g_attr_hist; vf::note("attributes: " + ahist_text(h));
   Logging::reset(); Logging& lg = Logging::instance();
   std::vector<std::unique_ptr<detail::ScopedAttribute>> scopes; std::vector<int> scope_ids;
   std::vector<RefAttr> ref; int next_id = 0; bool unspecified = false;
   Def d; d.sep0 = 0; d.items = {{K_ATTR, 0, 0, 0, -1}};
   auto emit = [&](size_t upto) {
      for (int own = 0; own < 4; ++own) {
         Msg mm{4, 2, "t", 5000000, 0, 7}; detail::LogMsg m = make_msg(mm);
         LogAttributes outer("k", "4"); LogAttributes inner(own == 3 ? &outer : nullptr); LogAttributes ownk("k", "3");
         if (own == 1) m.setAttributes(ownk); if (own == 2 || own == 3) { inner.addAttribute("q", std::string("3")); m.setAttributes(inner); }
         for (char name : {'k', 'q'}) {
            clf::Definition def; { clf::Creator c(def); c << clf::attribute(std::string(1, name)); }
            std::ostringstream os; detail::LogDestStream dest(os); dest.setFormatter(new clf::Format(def)); dest.handleMessage(m); ++g_renders;
            std::string expect;
            if (own == 1 && name == 'k') expect = "3"; else if ((own == 2 || own == 3) && name == 'q') expect = "3"; else if (own == 3 && name == 'k') expect = "4";
            else for (auto it = ref.rbegin(); it != ref.rend(); ++it) if (it->name == name) { expect = std::to_string(it->value); break; }
            if (os.str() != expect) {
               std::vector<AOp> pre(h.begin(), h.begin() + std::min(upto, h.size())); for (size_t x = h.size(); x < upto; ++x) pre.push_back({'}', 0, 0});      // upto > size: implicit scope ends
               // the known pattern: a scope of attribute n has ENDED and a plain add(n) happened while that scope was open
               bool mixed = false; { std::vector<std::pair<char, bool>> st; for (auto& o : pre) { if (o.type == 'S') st.push_back({o.name, false}); else if (o.type == 'G') { for (auto& e : st) if (e.first == o.name) e.second = true; } else if (o.type == '}' && !st.empty()) { if (st.back().second) mixed = true; st.pop_back(); } } }
               vf::violation(std::string("attribute-value|") + (own ? "own-attributes" : "global-only") + "|" + (mixed ? "scope-ended-after-plain-add-of-same-name-inside" : "plain") + "|last-op-" + std::string(1, pre.empty() ? '-' : pre.back().type),
                             std::string("attribute '") + name + "' rendered as '" + os.str() + "', expected '" + expect + "' (message-own attributes variant " + std::to_string(own) + ")\n  operations: " + ahist_text(pre), "attr: " + ahist_text(pre));
            }
         }
      }
   };
   emit(0);
   for (size_t i = 0; i < h.size() && !unspecified; ++i) {
      const AOp& o = h[i];
      switch (o.type) {
      case 'G': lg.addAttribute(std::string(1, o.name), std::to_string(o.value)); ref.push_back({o.name, o.value, false, next_id++}); break;
      case 'R': {
         int idx = -1; for (int j = int(ref.size()) - 1; j >= 0; --j) if (ref[j].name == o.name) { idx = j; break; }
         if (idx >= 0 && ref[idx].scoped) { unspecified = true; break; }       // removing a scoped attribute by hand: no documented meaning
         lg.removeAttribute(std::string(1, o.name)); if (idx >= 0) ref.erase(ref.begin() + idx);
         break; }
      case 'S': scopes.emplace_back(new detail::ScopedAttribute(std::string(1, o.name), std::to_string(o.value))); scope_ids.push_back(next_id); ref.push_back({o.name, o.value, true, next_id++}); break;
      case '}': { scopes.pop_back(); int id = scope_ids.back(); scope_ids.pop_back(); for (size_t j = 0; j < ref.size(); ++j) if (ref[j].id == id) { ref.erase(ref.begin() + j); break; } break; }
      }
      if (!unspecified) emit(i + 1);
   }
   // all scopes end (innermost first)
   size_t implicit = 0;
   while (!unspecified && !scopes.empty()) { scopes.pop_back(); int id = scope_ids.back(); scope_ids.pop_back(); for (size_t j = 0; j < ref.size(); ++j) if (ref[j].id == id) { ref.erase(ref.begin() + j); break; } emit(h.size() + (++implicit)); }
   if (unspecified) { vf::count("attribute_histories_unspecified_skipped"); scopes.clear(); }
   Logging::reset();
}
static void explore_attr(std::vector<AOp>& h, int depth, int open) {
   static const AOp ops[] = {{'G', 'k', 1}, {'G', 'k', 2}, {'G', 'q', 1}, {'R', 'k', 0}, {'S', 'k', 1}, {'S', 'k', 2}, {'S', 'q', 1}, {'}', 0, 0}};
   if (int(h.size()) == depth) { check_attr_history(h); return; }
   for (auto& o : ops) { if (o.type == '}' && open == 0) continue; h.push_back(o); explore_attr(h, depth, open + (o.type == 'S') - (o.type == '}')); h.pop_back(); }
}

int main(int argc, char** argv) {
   vf::init(argc, argv);
   setenv("TZ", "UTC", 1); tzset();
   const bool th = vf::thorough();
   if (vf::replaying()) {
      std::string r = vf::replay_case();
      if (r.compare(0, 6, "attr: ") == 0) {
         std::vector<AOp> h; std::istringstream is(r.substr(6)); std::string w;
         while (is >> w) { if (w == "}") h.push_back({'}', 0, 0}); else if (w[0] == 'r') h.push_back({'R', w[7], 0}); else if (w[0] == 'a') h.push_back({'G', w[4], w[6] - '0'}); else h.push_back({'S', w[8], w[10] - '0'}); }
         vf::ctx().next_case = 1; printf("replaying attribute operations: %s\n", ahist_text(h).c_str()); check_attr_history(h);
         vf::finish(); return 0;
      }
      vf::ctx().only = strtoll(r.c_str(), nullptr, 10); vf::ctx().have_replay = false;
   }
   std::vector<Item> opts, opts_thin;
   for (int k = 0; k < NKINDS; ++k) for (int w : {0, 3, 12}) for (int l = 0; l < 2; ++l) for (int f = 0; f < 3; ++f) opts.push_back({k, w, l, f, -1});
   for (int k = 0; k < NKINDS; ++k) for (int wl = 0; wl < 4; ++wl) for (int f = 0; f < 2; ++f) opts_thin.push_back({k, wl == 0 ? 0 : wl == 1 ? 3 : 12, wl == 1 || wl == 3, f, -1});
   const long long stamps[] = {0, 86399999999LL, 86400000000LL, 1000000000123456LL};
   const char* texts[] = {"", "x", "two words"};
   std::vector<Msg> diag;
   for (int i = 0; i < 6; ++i) diag.push_back({1 + i, 6 - i, texts[i % 3], stamps[i % 4], i == 0 ? 0 : i == 1 ? -5 : 12345 * i, i % 2 ? 99999 : 1});
   Logging::reset();
   // ---- one item: all options x all separator settings x full message product for the dimension the field prints
   for (auto& it : opts) for (int s0 = 0; s0 < 3; ++s0) {
      if (!vf::want_case()) continue;
      Def d{s0, {it}}; ++g_defs;
      for (int l = 1; l <= 6; ++l) for (int c = 1; c <= 6; ++c) for (int t = 0; t < 3; ++t) for (int st = 0; st < 4; ++st) {
         // only vary what this kind prints (the other dimensions are covered by the diagonal messages)
         bool rel = (it.kind == K_LEVEL) ? (c == 1 && t == 0 && st == 0) : (it.kind == K_CLASS) ? (l == 1 && t == 0 && st == 0) : (it.kind == K_TEXT) ? (l == 1 && c == 1 && st == 0)
                  : (it.kind == K_DATE || it.kind == K_TIME || it.kind == K_DATETIME || it.kind == K_MS || it.kind == K_US) ? (l == 1 && c == 1 && t == 0) : (l == 1 && c == 1 && t == 0 && st == 0);
         if (!rel) continue;
         check(d, Msg{l, c, texts[t], stamps[st], 0, 1}, "one");
      }
      for (auto& mm : diag) check(d, mm, "one");
      vf::nontrivial_by_construction();
      if (vf::current_case() % 173 == 0) vf::sample(def_text(d) + " x messages");
   }
   // ---- two items: full options, separator initial x change before the second item
   for (auto& a : opts) for (auto& b0 : opts) {
      if (!vf::want_case()) continue;
      for (int s0 = 0; s0 < 3; ++s0) for (int sc = -1; sc < 3; ++sc) {
         if (sc == s0) continue;
         Item b = b0; b.sep_before = sc; Def d{s0, {a, b}}; ++g_defs;
         for (size_t i = 0; i < diag.size(); i += (th ? 1 : 2)) check(d, diag[(i + a.kind + b.kind) % diag.size()], "two");
      }
      vf::nontrivial_by_construction();
      if (vf::current_case() % 9973 == 0) vf::sample(def_text(Def{1, {a, b0}}) + " x separator settings x messages");
      if (vf::deadline_hit()) break;
   }
   // ---- three items (thorough): thinned options
   // three items: thinned option sets for all three (quick) / full option set for the first item (thorough)
   for (auto& a : (th ? opts : opts_thin)) for (auto& b0 : opts_thin) {
      if (!vf::want_case()) continue;
      for (auto& c0 : opts_thin) for (int s0 = 0; s0 < 3; s0 += 1) for (int sc = -1; sc < 2; ++sc) {
         if (sc == s0) continue;
         Item b = b0, c = c0; if ((a.kind + c0.kind) % 2) b.sep_before = sc; else c.sep_before = sc;
         Def d{s0, {a, b, c}}; ++g_defs;
         check(d, diag[(a.kind + b.kind + c.kind) % diag.size()], "three");
      }
      vf::nontrivial_by_construction();
      if (vf::deadline_hit()) break;
   }
   // ---- attribute histories
   for (int depth = 1; depth <= (th ? 6 : 5); ++depth) {
      // a case = first operation at this depth
      static const int first_ops = 7;
      for (int f = 0; f < first_ops; ++f) {
         if (!vf::want_case()) continue;
         static const AOp ops[] = {{'G', 'k', 1}, {'G', 'k', 2}, {'G', 'q', 1}, {'R', 'k', 0}, {'S', 'k', 1}, {'S', 'k', 2}, {'S', 'q', 1}};
         std::vector<AOp> h = {ops[f]}; explore_attr(h, depth, ops[f].type == 'S');
         vf::nontrivial_by_construction();
         vf::sample("attribute operations of length " + std::to_string(depth) + " starting with " + aop_text(ops[f]) + ", message rendered after every operation with 4 own-attribute variants");
      }
   }
   vf::count("evaluations", g_renders); vf::count("transitions", g_renders); vf::count("states", g_defs + g_attr_hist);
   vf::count("definitions", g_defs); vf::count("attribute_histories", g_attr_hist);
   vf::finish();
   return 0;
}
