// C13  Integer-to-string conversions are exact for every integer                       (engine E2 xenum)
//
// alphabet : int2string(T), int2string(char*,T), grouped_int2string(T,g), grouped_int2string(char*,T,g)
//            for T in {int8,uint8,int16,uint16,int32,uint32,int64,uint64}, g in {' , . space -}
// bound    : quick   : all 2^8 / 2^16 values; 32- and 64-bit: the complete "structured" set
//            thorough: additionally all 2^32 values of int32_t and uint32_t (256 chunks of 2^24 per type)
// oracle   : independent repeated-division formatter; grouped = same digits with the group character every three
//            digits from the right, never next to the sign; buffer forms: same bytes + NUL, return value == length,
//            every byte outside [buf, buf+len+1) of a guarded area untouched; stringTo<T>(text) == value.
#include "engine/common.hpp"
#include "celma/format/int2string.hpp"
#include "celma/format/grouped_int2string.hpp"
#include "celma/format/string_to.hpp"
#include <type_traits>
#include <limits>
#include <cinttypes>

using namespace celma::format;

static const char GROUPS[] = {'\'', ',', '.', ' ', '-'};

// reference: decimal digits of an unsigned magnitude, most significant first; returns length
static inline int ref_digits(uint64_t mag, char* out) {
   char tmp[24]; int n = 0;
   do { tmp[n++] = char('0' + mag % 10); mag /= 10; } while (mag != 0);
   for (int i = 0; i < n; ++i) out[i] = tmp[n - 1 - i];
   return n;
}
template <typename T> static inline int ref_plain(T v, char* out) {
   int n = 0; uint64_t mag;
   if constexpr (std::is_signed<T>::value) {
      if (v < 0) { out[n++] = '-'; mag = uint64_t(0) - uint64_t(int64_t(v)); } else mag = uint64_t(v);
   } else mag = uint64_t(v);
   n += ref_digits(mag, out + n); out[n] = 0; return n;
}
template <typename T> static inline int ref_grouped(T v, char g, char* out) {
   char d[24]; int n = 0; uint64_t mag;
   if constexpr (std::is_signed<T>::value) {
      if (v < 0) { out[n++] = '-'; mag = uint64_t(0) - uint64_t(int64_t(v)); } else mag = uint64_t(v);
   } else mag = uint64_t(v);
   int nd = ref_digits(mag, d);
   for (int i = 0; i < nd; ++i) {
      out[n++] = d[i];
      int remaining = nd - 1 - i;
      if (remaining > 0 && remaining % 3 == 0) out[n++] = g;
   }
   out[n] = 0; return n;
}

template <typename T> static const char* tname() {
   if (std::is_same<T, int8_t>::value) return "int8"; if (std::is_same<T, uint8_t>::value) return "uint8";
   if (std::is_same<T, int16_t>::value) return "int16"; if (std::is_same<T, uint16_t>::value) return "uint16";
   if (std::is_same<T, int32_t>::value) return "int32"; if (std::is_same<T, uint32_t>::value) return "uint32";
   if (std::is_same<T, int64_t>::value) return "int64"; return "uint64";
}

static uint64_t g_evals = 0, g_values = 0;
static std::set<int> g_lengths;

template <typename T> static std::string valstr(T v) {
   char b[40];
   if (std::is_signed<T>::value) snprintf(b, sizeof b, "%" PRId64, int64_t(v)); else snprintf(b, sizeof b, "%" PRIu64, uint64_t(v));
   return b;
}

template <typename T> static void report(const char* form, T v, char g, const std::string& got, const std::string& exp, const char* what) {
   std::string mag = std::to_string(exp.size());
   std::string sig = std::string(form) + "<" + tname<T>() + ">:" + what + ":len" + mag;
   std::string rc = std::string(tname<T>()) + " " + valstr(v) + " " + std::to_string(int(g));
   vf::violation(sig, std::string(form) + "<" + tname<T>() + ">(" + valstr(v) + (g ? std::string(", '") + g + "'" : "") + "): " + what +
                 ": got \"" + vf::vis(got) + "\" expected \"" + exp + "\"", rc);
}

// guarded buffer: 32 guard bytes, then exactly len+1 usable bytes, then guard bytes again
struct Guarded {
   unsigned char area[32 + 40 + 32];
   char* buf() { return reinterpret_cast<char*>(area + 32); }
   void arm() { memset(area, 0xA5, sizeof area); }
   // returns true when every byte outside [32, 32+used) still is 0xA5
   bool intact(int used) const {
      for (int i = 0; i < 32; ++i) if (area[i] != 0xA5) return false;
      for (size_t i = 32 + used; i < sizeof area; ++i) if (area[i] != 0xA5) return false;
      return true;
   }
};

static uint64_t g_nontrivial_direct = 0;
// non-trivial: the grouped text contains at least one group character (|v| >= 1000), counted per distinct (type, value)
template <typename T> static void check_value(T v, unsigned groupmask, bool roundtrip, bool distinct_by_construction = false) {
   char ref[40]; Guarded gb;
   ++g_values;
   {
      bool big = (v >= T(0)) ? (uint64_t(v) >= 1000) : (int64_t(v) <= -1000);
      if (sizeof(T) == 1) big = false;
      if (big) { if (distinct_by_construction) ++g_nontrivial_direct; else { uint64_t key[2] = {uint64_t(sizeof(T) * 2 + std::is_signed<T>::value), uint64_t(v)}; vf::nontrivial(vf::fnv(key, sizeof key)); } }
   }
   // ---- plain, string form
   int rl = ref_plain<T>(v, ref);
   {
      std::string s = int2string(v); ++g_evals;
      if (int(s.size()) != rl || memcmp(s.data(), ref, rl) != 0) report<T>("int2string", v, 0, s, ref, "wrong text");
      if (roundtrip) {
         bool ok = true; T back{};
         try { back = stringTo<T>(s); } catch (const std::exception&) { ok = false; }
         if (!ok || back != v) report<T>("stringTo", v, 0, ok ? valstr(back) : std::string("<exception>"), ref, "round trip differs");
      }
   }
   // ---- plain, buffer form
   {
      gb.arm();
      int n = int2string(gb.buf(), v); ++g_evals;
      bool textok = (n == rl) && memcmp(gb.buf(), ref, rl + 1) == 0;
      if (!textok) report<T>("int2string(buf)", v, 0, std::string(gb.buf(), strnlen(gb.buf(), 40)) + " ret=" + std::to_string(n), ref, "wrong text/return/NUL");
      if (!gb.intact(rl + 1)) report<T>("int2string(buf)", v, 0, "<guard>", ref, "wrote outside text+NUL");
   }
   // ---- grouped forms
   for (unsigned gi = 0; gi < 5; ++gi) {
      if (!(groupmask & (1u << gi))) continue;
      char g = GROUPS[gi];
      int gl = ref_grouped<T>(v, g, ref);
      {
         std::string s = grouped_int2string(v, g); ++g_evals;
         if (int(s.size()) != gl || memcmp(s.data(), ref, gl) != 0) report<T>("grouped_int2string", v, g, s, ref, "wrong text");
      }
      {
         gb.arm();
         int n = grouped_int2string(gb.buf(), v, g); ++g_evals;
         bool textok = (n == gl) && memcmp(gb.buf(), ref, gl + 1) == 0;
         if (!textok) report<T>("grouped_int2string(buf)", v, g, std::string(gb.buf(), strnlen(gb.buf(), 40)) + " ret=" + std::to_string(n), ref, "wrong text/return/NUL");
         if (!gb.intact(gl + 1)) report<T>("grouped_int2string(buf)", v, g, "<guard>", ref, "wrote outside text+NUL");
      }
      g_lengths.insert(gl * 2 + (ref[0] == '-'));
   }
   if (vf::verbose()) { ref_plain<T>(v, ref); printf("  %s %s -> int2string=\"%s\" grouped=\"%s\"\n", tname<T>(), ref, int2string(v).c_str(), grouped_int2string(v, '\'').c_str()); }
}

// default argument form (no group character given) must use the apostrophe
template <typename T> static void check_default_group(T v) {
   char ref[40]; int gl = ref_grouped<T>(v, '\'', ref);
   std::string s = grouped_int2string(v); ++g_evals;
   if (int(s.size()) != gl || memcmp(s.data(), ref, gl) != 0) report<T>("grouped_int2string(default)", v, '\'', s, ref, "wrong text");
}

// the structured 64-bit (and 32-bit) set, as unsigned bit patterns
static void structured(std::vector<uint64_t>& out) {
   std::set<uint64_t> s;
   uint64_t p10 = 1;
   for (int k = 0; k < 20; ++k) {
      for (int d = 0; d <= 9; ++d) for (int e = -2; e <= 2; ++e) s.insert(uint64_t(d) * p10 + uint64_t(int64_t(e)));
      if (k < 19) p10 *= 10;
   }
   for (int k = 0; k < 64; ++k) for (int e = -2; e <= 2; ++e) s.insert((uint64_t(1) << k) + uint64_t(int64_t(e)));
   for (int e = -2; e <= 2; ++e) { s.insert(uint64_t(int64_t(e))); s.insert(uint64_t(INT64_MAX) + uint64_t(int64_t(e))); s.insert(uint64_t(INT32_MAX) + uint64_t(int64_t(e)));
                                   s.insert(uint64_t(UINT32_MAX) + uint64_t(int64_t(e))); s.insert(uint64_t(INT16_MAX) + uint64_t(int64_t(e))); s.insert(uint64_t(UINT16_MAX) + uint64_t(int64_t(e))); }
   // every value with at most 3 non-zero decimal digits (positions 0..19)
   uint64_t pw[20]; pw[0] = 1; for (int i = 1; i < 20; ++i) pw[i] = pw[i - 1] * 10;
   for (int a = 0; a < 20; ++a) for (int da = 1; da <= 9; ++da) {
      if (a == 19 && da > 1) continue;
      uint64_t va = pw[a] * da; s.insert(va);
      for (int b = 0; b < a; ++b) for (int db = 1; db <= 9; ++db) {
         uint64_t vb = va + pw[b] * db; if (vb < va) continue; s.insert(vb);
         for (int c = 0; c < b; ++c) for (int dc = 1; dc <= 9; ++dc) { uint64_t vc = vb + pw[c] * dc; if (vc >= vb) s.insert(vc); }
      }
   }
   // all-nines, repeated digit patterns
   for (int d = 1; d <= 9; ++d) { uint64_t v = 0; for (int k = 0; k < 19; ++k) { v = v * 10 + d; s.insert(v); } }
   out.assign(s.begin(), s.end());
}

template <typename T> static void run_range(uint64_t lo, uint64_t hi_excl, bool all_groups) {   // bit patterns lo..hi_excl-1 of T
   for (uint64_t u = lo; u < hi_excl; ++u) {
      T v = T(typename std::make_unsigned<T>::type(u));
      check_value<T>(v, all_groups ? 0x1f : (1u << (u % 5)), true, true);
      if ((u & 0xffff) == 0) { vf::heartbeat(); if ((u & 0xfffff) == 0 && vf::deadline_hit()) { vf::count("ranges_cut_by_deadline"); return; } }
   }
}

template <typename T> static void run_structured(const std::vector<uint64_t>& set, size_t part, size_t parts) {
   using U = typename std::make_unsigned<T>::type;
   size_t n = set.size();
   for (size_t i = part; i < n; i += parts) {
      uint64_t u = set[i];
      if (sizeof(T) < 8 && u > uint64_t(std::numeric_limits<U>::max()) && uint64_t(-int64_t(u)) > uint64_t(std::numeric_limits<U>::max())) continue;
      T v = T(U(u));
      check_value<T>(v, 0x1f, true); check_default_group<T>(v);
      T w = T(U(0) - U(u));      // the negative / complementary pattern
      check_value<T>(w, 0x1f, true);
      if ((i & 0xfff) == 0) vf::heartbeat();
   }
}

template <typename T> static bool replay_one(const std::string& type, const char* rest) {
   if (type != tname<T>()) return false;
   T v; if (std::is_signed<T>::value) v = T(strtoll(rest, nullptr, 10)); else v = T(strtoull(rest, nullptr, 10));
   check_value<T>(v, 0x1f, true); check_default_group<T>(v);
   return true;
}

int main(int argc, char** argv) {
   vf::init(argc, argv);
   if (vf::replaying()) {
      std::string r = vf::replay_case(); size_t sp = r.find(' ');
      std::string t = r.substr(0, sp); const char* rest = r.c_str() + sp + 1;
      replay_one<int8_t>(t, rest) || replay_one<uint8_t>(t, rest) || replay_one<int16_t>(t, rest) || replay_one<uint16_t>(t, rest) ||
         replay_one<int32_t>(t, rest) || replay_one<uint32_t>(t, rest) || replay_one<int64_t>(t, rest) || replay_one<uint64_t>(t, rest);
      vf::finish(); return 0;
   }
   std::vector<uint64_t> sset; structured(sset);
   vf::fact("structured_set_size", std::to_string(sset.size()));
   // --- cases 0..3: the small types, completely
   if (vf::want_case()) { vf::note("int8 all"); run_range<int8_t>(0, 256, true); vf::sample("int8_t: all 256 values x 5 group characters x 4 forms"); }
   if (vf::want_case()) { vf::note("uint8 all"); run_range<uint8_t>(0, 256, true); }
   for (int part = 0; part < 8; ++part) {
      if (vf::want_case()) { vf::note("int16 part"); run_range<int16_t>(part * 8192u, (part + 1) * 8192u, true); }
      if (vf::want_case()) { vf::note("uint16 part"); run_range<uint16_t>(part * 8192u, (part + 1) * 8192u, true); }
   }
   // --- structured set for 32 and 64 bit, 16 parts each
   const size_t PARTS = 16;
   for (size_t p = 0; p < PARTS; ++p) {
      if (vf::want_case()) { vf::note("int32 structured"); run_structured<int32_t>(sset, p, PARTS); }
      if (vf::want_case()) { vf::note("uint32 structured"); run_structured<uint32_t>(sset, p, PARTS); }
      if (vf::want_case()) { vf::note("int64 structured"); run_structured<int64_t>(sset, p, PARTS); vf::sample("int64_t structured part " + std::to_string(p) + ": e.g. " + std::to_string(int64_t(sset[p])) + ", " + std::to_string(int64_t(sset[sset.size() / 2 + p]))); }
      if (vf::want_case()) { vf::note("uint64 structured"); run_structured<uint64_t>(sset, p, PARTS); }
   }
   // --- thorough: every 32-bit value
   if (vf::thorough()) {
      for (uint64_t chunk = 0; chunk < 256; ++chunk) {
         if (vf::want_case()) { vf::note("int32 chunk " + std::to_string(chunk)); run_range<int32_t>(chunk << 24, (chunk + 1) << 24, false);
                                vf::sample("int32_t: all 2^24 values with bit pattern " + std::to_string(chunk) + "<<24 .."); }
         if (vf::want_case()) { vf::note("uint32 chunk " + std::to_string(chunk)); run_range<uint32_t>(chunk << 24, (chunk + 1) << 24, false); }
      }
   }
   vf::count("evaluations", g_evals);
   vf::count("transitions", g_evals);
   vf::count("states", g_values);
   vf::nontrivial_by_construction(g_nontrivial_direct);
   // distinct outcomes = (length, sign) classes of grouped output reached: every digit count and group count must occur
   for (int l : g_lengths) vf::outcome("grouped length " + std::to_string(l / 2) + ((l & 1) ? " negative" : " non-negative"));
   vf::finish();
   return 0;
}
