// C20  Concurrency helpers keep their contract under every schedule                     (engine E3 xsched)
//
// scenarios (each explored over ALL schedules with <= p preemptions; every execution in a fresh process):
//   singleton2      two threads call Singleton<X>::instance() for the first time
//   singleton3      three threads
//   singleton-twice one thread calls it twice, the other once
//   managed         T0 constructs ManagedThread t(f); f: started=1; wait(go); done=1.  T0 samples s=started, a=t.isActive(), d=done;
//                   then go=1, join, isActive() again
//   managed-observer as above, but a third thread that is handed &t does the sampling
//   managed-short   the thread function finishes at once (possibly before the creator has left the constructor); join; isActive()
// oracle per execution: X constructed exactly once, every caller got the same object and sees it fully constructed;
//   (s==1 and d==0) => a==true; after join isActive()==false; no data race (vector-clock detector over all instrumented accesses,
//   a plain write racing with an atomic access to the same byte counts); no deadlock.
#include "engine/common.hpp"
#ifdef XS_FREE_RUNNING
#include "engine/sched/xsched_free.hpp"      // real libtsan, free-running threads (cross-check pass)
#else
#include "engine/sched/xsched.hpp"
#include "engine/sched/crosscheck.hpp"
#endif
#include "celma/common/singleton.hpp"
#include "celma/common/managed_thread.hpp"
#include <atomic>
#include <thread>
#include <new>

static std::atomic<int> g_ctor{0};
class X : public celma::common::Singleton<X> {
   friend class celma::common::Singleton<X>;
   X() : value(0) { g_ctor.fetch_add(1); value = 42; }
public:
   int value;
};
static X* g_seen[4]; static int g_val[4];
static void use_singleton(int slot) { X& x = X::instance(); g_seen[slot] = &x; g_val[slot] = x.value; }
static void check_singleton(int n) {
   char b[300];
   int c = g_ctor.load();
   if (c != 1) { snprintf(b, sizeof b, "the singleton was constructed %d times", c); xs::fail("singleton-constructed-not-once", b); }
   for (int i = 1; i < n; ++i) if (g_seen[i] != g_seen[0]) { snprintf(b, sizeof b, "caller %d got object %p, caller 0 got %p", i, (void*)g_seen[i], (void*)g_seen[0]); xs::fail("singleton-different-objects", b); break; }
   for (int i = 0; i < n; ++i) if (g_val[i] != 42) { snprintf(b, sizeof b, "caller %d saw value %d of a not yet constructed object", i, g_val[i]); xs::fail("singleton-seen-unconstructed", b); break; }
   snprintf(b, sizeof b, "ctor=%d same=%d", c, g_seen[0] == g_seen[1]); xs::observe(b);
}
static void body_singleton2() { std::thread a(use_singleton, 0), b(use_singleton, 1); a.join(); b.join(); check_singleton(2); }
static void body_singleton3() { std::thread a(use_singleton, 0), b(use_singleton, 1), c(use_singleton, 2); a.join(); b.join(); c.join(); check_singleton(3); }
static void body_singleton_twice() { std::thread a([] { use_singleton(0); use_singleton(2); }), b(use_singleton, 1); a.join(); b.join(); check_singleton(3); }

static std::atomic<int> g_started{0}, g_go{0}, g_done{0};
alignas(64) static char g_mt_storage[sizeof(celma::common::ManagedThread)];
static void thread_fn() { g_started.store(1); while (!g_go.load()) xs::yield(); g_done.store(1); }
static void sample(celma::common::ManagedThread* t, const char* who) {
   int s = g_started.load(); bool a = t->isActive(); int d = g_done.load();
   char b[200]; snprintf(b, sizeof b, "%s: started=%d active=%d done=%d", who, s, int(a), d); xs::observe(b);
   if (s == 1 && d == 0 && !a) { snprintf(b, sizeof b, "%s observed the thread function running (started=1, done=0) but isActive() returned false", who); xs::fail("active-thread-reported-inactive", b); }
}
static void body_managed() {
   auto* t = new (g_mt_storage) celma::common::ManagedThread(thread_fn);
   sample(t, "creator");
   g_go.store(1);
   t->join();
   if (t->isActive()) xs::fail("joined-thread-reported-active", "isActive() is true after the thread function returned and the thread was joined");
   xs::observe(t->isActive() ? "after-join active" : "after-join inactive");
   t->~ManagedThread();
}
static void body_managed_observer() {
   auto* t = new (g_mt_storage) celma::common::ManagedThread(thread_fn);
   std::thread obs([t] { sample(t, "observer"); sample(t, "observer2"); });
   obs.join();
   g_go.store(1);
   t->join();
   if (t->isActive()) xs::fail("joined-thread-reported-active", "isActive() is true after the thread function returned and the thread was joined");
   t->~ManagedThread();
}

// a thread function that finishes at once: it may be over before the creator has left the constructor; whatever the timing,
// after join the thread must be reported inactive (and while it provably runs, active)
static void short_fn() { g_started.store(1); g_done.store(1); }
static void body_managed_short() {
   auto* t = new (g_mt_storage) celma::common::ManagedThread(short_fn);
   sample(t, "creator");
   t->join();
   if (t->isActive()) xs::fail("joined-thread-reported-active", "isActive() is true after the (short) thread function returned and the thread was joined");
   xs::observe(t->isActive() ? "after-join active" : "after-join inactive");
   t->~ManagedThread();
}
struct Scen { const char* name; xs::Body body; int bound_quick, bound_thorough; };
static const Scen scens[] = {
   {"singleton2", body_singleton2, 2, 4}, {"singleton-twice", body_singleton_twice, 2, 3}, {"singleton3", body_singleton3, 2, 3},
   {"managed", body_managed, 3, 5}, {"managed-observer", body_managed_observer, 2, 3}, {"managed-short", body_managed_short, 3, 5},
};

#ifdef XS_FREE_RUNNING
int main(int argc, char** argv) { int reps = argc > 1 ? atoi(argv[1]) : 20; for (auto& s : scens) xs::run_free(s.name, s.body, reps); return 0; }
#else
int main(int argc, char** argv) {
   vf::init(argc, argv);
   vf::Ctx& c = vf::ctx();
   if (vf::replaying()) {      // "scenario=<name> schedule=<choices>"
      std::string r = vf::replay_case(); size_t a = r.find("scenario="), b = r.find(" schedule=");
      std::string name = r.substr(a + 9, b - a - 9), sched = r.substr(b + 10);
      for (auto& s : scens) if (name == s.name) {
         std::map<std::string, xs::Finding> f; printf("replaying scenario %s, schedule [%s]\n", s.name, sched.c_str());
         xs::replay(s.name, s.body, xs::parse_schedule(sched), f, true);
         c.next_case = 1; for (auto& kv : f) vf::violation(kv.first, kv.second.detail, r);
      }
      vf::finish(); return 0;
   }
   uint64_t execs = 0, points = 0, races = 0;
   for (size_t i = 0; i < sizeof scens / sizeof scens[0]; ++i) {
      const Scen& s = scens[i];
      uint64_t idx = c.next_case++; if (c.only >= 0 && idx != uint64_t(c.only)) continue; if (idx < c.from && c.shard != 0) continue;
      c.prog->case_idx = idx; ++c.cases_run; vf::note(std::string("scenario ") + s.name);
      xs::Options o; o.bound = (vf::thorough() ? s.bound_thorough : s.bound_quick) + (vf::deep() ? 2 : 0); o.shard = c.only >= 0 ? 0 : c.shard; o.nshards = c.only >= 0 ? 1 : c.nshards; o.deadline_s = c.deadline - vf::elapsed(); o.keep_going = [] { vf::heartbeat(); return true; };
      xs::Stats st; std::map<std::string, xs::Finding> f;
      xs::explore(s.name, s.body, o, st, f);
      if (!st.complete) c.capped = true;
      for (auto& kv : f) vf::violation(kv.first, kv.second.detail, std::string("scenario=") + s.name + " schedule=" + xs::schedule_text(kv.second.schedule));
      execs += st.executions; points += st.points; races += st.races_reported;
      for (auto& oc : st.outcomes) vf::outcome(oc);
      for (auto& sm : st.sample_schedules) vf::sample(sm);
      vf::count(std::string("schedules_") + s.name, st.executions);
      vf::setmax(std::string("max_scheduling_points_") + s.name, st.max_points); vf::setmax(std::string("max_watched_locations_") + s.name, st.watch_locations);
      for (int p = 0; p < 8; ++p) if (st.by_preemptions[p]) vf::count("schedules_with_" + std::to_string(p) + "_preemptions", st.by_preemptions[p]);
      vf::count("late_watch_additions", st.late_watch_additions); vf::count("instrumented_accesses", st.instrumented_accesses); vf::count("race_reports_foreign_objects", st.foreign_races);
      vf::count("schedules_with_switch_at_shared_location", st.executions_with_switch_between_conflicting); vf::count("hangs", st.hangs);
      vf::fact(std::string("preemption_bound_") + s.name, std::to_string(o.bound));
      vf::nontrivial_by_construction(st.executions_with_switch_between_conflicting);
   }
   if (c.shard == 0 && c.only < 0) xs::libtsan_crosscheck(vf::thorough() ? 200 : 25);
   vf::count("evaluations", execs); vf::count("states", execs); vf::count("transitions", points); vf::count("traces", execs); vf::count("race_reports", races);
   vf::finish();
   return 0;
}
#endif
