// C06  Multi-value destinations end up as the fold of all values given                     (engine E2 xenum)
//
// destination kinds : vector, deque, list, forward_list, set, multiset, unordered_set, unordered_multiset, queue, stack,
//                     priority_queue of int; vector/set of std::string (with the uppercase format); int[3],
//                     std::array<int,3>, std::tuple<int,std::string,int>, std::bitset<5>, vector<bool>, DynamicBitset,
//                     map / multimap / unordered_map / unordered_multimap <int,string> (key-value pairs)
// options           : list separator, clear-before-assign, sort, unique (drop / error), multi-value, element check,
//                     uppercase format for every value / for the value at position 1 only (string vectors),
//                     range(0,5), initial content {}, {4}, {4,2}; options a destination does not support are skipped
// value sequences   : ALL sequences of <= 3 (quick) / <= 4 (thorough) elements over {0,1,2,7,14} incl. duplicates, the
//                     out-of-range 7 and 14 (same hash bucket as 1); EVERY CUT of the sequence into uses (-v 1,2 -v 3 / -v 1 2 3 with multi-value / ...)
// oracle            : reference fold: initial content, cleared once if requested, then every element in order with the
//                     container's own placement rule, duplicates dropped or refused, checks per element, sorted if
//                     requested; fixed-size kinds refuse element N+1; bit sets set the given positions. All cuts must give
//                     the same content (they are compared with the same fold). Unordered containers compared as multisets.
#include "harness/args.hpp"
#include "celma/container/dynamic_bitset.hpp"
#include <deque>
#include <list>
#include <forward_list>
#include <set>
#include <unordered_set>
#include <queue>
#include <stack>
#include <bitset>
#include <array>
#include <tuple>
#include <map>
#include <unordered_map>
using namespace celma::prog_args;

static uint64_t g_evals = 0, g_configs = 0, g_skipped_option = 0, g_expect_throw = 0, g_dups = 0;
static uint64_t g_case = 0;

struct Opt { char sep = ','; bool clear = false, sort = false; int unique = 0; bool multival = false, check = false; int init = 0; int upper = 0; };   // upper: 1 = uppercase format for every value, 2 = uppercase format for the value at position 1 only (addFormatPos)
static std::string opt_text(const Opt& o) {
   return std::string("sep'") + o.sep + "'" + (o.clear ? " clear" : "") + (o.sort ? " sort" : "") + (o.unique == 1 ? " unique" : o.unique == 2 ? " unique(error)" : "") + (o.multival ? " multival" : "") + (o.check ? " range(0,5)" : "") + (o.upper == 1 ? " uppercase" : o.upper == 2 ? " uppercase@pos1" : "") + " init" + std::to_string(o.init);
}
// a cut: uses[i] = list of elements of use i
typedef std::vector<std::vector<std::string>> Cut;
static std::vector<Cut> all_cuts(const std::vector<std::string>& seq) {
   std::vector<Cut> r; size_t n = seq.size(); if (n == 0) return r;
   for (unsigned m = 0; m < (1u << (n - 1)); ++m) { Cut c; c.push_back({seq[0]}); for (size_t i = 1; i < n; ++i) { if (m >> (i - 1) & 1) c.push_back({seq[i]}); else c.back().push_back(seq[i]); } r.push_back(c); }
   return r;
}
static std::vector<std::string> words_of(const Cut& c, char sep, bool free_values) {
   std::vector<std::string> w;
   for (size_t i = 0; i < c.size(); ++i) { std::string l; for (size_t j = 0; j < c[i].size(); ++j) l += (j ? std::string(1, sep) : "") + c[i][j]; if (i == 0 || !free_values) w.push_back("-v"); w.push_back(l); }
   return w;
}

// placement rules of the reference fold
enum Place { BACK, FRONT, SORTED_UNIQUE, SORTED_MULTI, HASH_UNIQUE, HASH_MULTI, LIFO, HEAP };
template <class E> struct Fold {
   std::vector<E> content; bool fail = false; std::string why;
   Place place;
   bool has(const E& e) const { return std::find(content.begin(), content.end(), e) != content.end(); }
   void add(const E& e) {
      switch (place) {
      case BACK: content.push_back(e); break;
      case FRONT: content.insert(content.begin(), e); break;
      case SORTED_UNIQUE: case HASH_UNIQUE: if (!has(e)) content.push_back(e); std::sort(content.begin(), content.end()); break;
      case SORTED_MULTI: case HASH_MULTI: content.push_back(e); std::sort(content.begin(), content.end()); break;
      case LIFO: content.insert(content.begin(), e); break;
      case HEAP: content.push_back(e); std::sort(content.begin(), content.end(), std::greater<E>()); break;
      }
   }
};

template <class E> static bool conv(const std::string& t, E& out);
template <> bool conv<int>(const std::string& t, int& out) { long long x; if (!hc::conv_int(t, x)) return false; out = int(x); return true; }
template <> bool conv<std::string>(const std::string& t, std::string& out) { out = t; return true; }
template <class E> static std::string show(const std::vector<E>& v) { std::ostringstream o; o << "["; for (size_t i = 0; i < v.size(); ++i) o << (i ? "," : "") << v[i]; o << "]"; return o.str(); }

template <class E> static void fold_cut(Fold<E>& f, const Opt& o, const Cut& c, bool sortable) {
   bool cleared = false;
   for (auto& use : c) {
      if (o.clear && !cleared) { f.content.clear(); cleared = true; }
      for (auto t : use) {
         if (o.check) { long long x; if (!hc::conv_int(t, x) || x < 0 || x >= 5) { f.fail = true; f.why = "element " + t + " fails range(0,5)"; return; } }
         if (o.upper == 1 || (o.upper == 2 && f.content.size() == 1)) for (auto& ch : t) ch = char(toupper((unsigned char)ch));      // position = number of elements the destination holds when the value arrives
         E e; if (!conv<E>(t, e)) { f.fail = true; f.why = "element does not convert"; return; }
         if (o.unique && f.has(e)) { ++g_dups; if (o.unique == 2) { f.fail = true; f.why = "duplicate " + t + " must be refused"; return; } continue; }
         f.add(e);
      }
      if (o.sort && sortable) std::sort(f.content.begin(), f.content.end());
   }
}

// ---- reading real containers back into a list (iteration / pop order)
template <class C> static auto to_list(const C& c) -> std::vector<typename C::value_type> { return std::vector<typename C::value_type>(c.begin(), c.end()); }
template <class T> static std::vector<T> to_list(std::queue<T> q) { std::vector<T> r; while (!q.empty()) { r.push_back(q.front()); q.pop(); } return r; }
template <class T> static std::vector<T> to_list(std::stack<T> q) { std::vector<T> r; while (!q.empty()) { r.push_back(q.top()); q.pop(); } return r; }
template <class T> static std::vector<T> to_list(std::priority_queue<T> q) { std::vector<T> r; while (!q.empty()) { r.push_back(q.top()); q.pop(); } return r; }
template <class C, class E> static void fill(C& c, const std::vector<E>& init) { for (auto& e : init) c.insert(c.end(), e); }
template <class E> static void fill(std::forward_list<E>& c, const std::vector<E>& init) { for (auto it = init.rbegin(); it != init.rend(); ++it) c.push_front(*it); }
template <class E> static void fill(std::queue<E>& c, const std::vector<E>& init) { for (auto& e : init) c.push(e); }
template <class E> static void fill(std::stack<E>& c, const std::vector<E>& init) { for (auto it = init.rbegin(); it != init.rend(); ++it) c.push(*it); }
template <class E> static void fill(std::priority_queue<E>& c, const std::vector<E>& init) { for (auto& e : init) c.push(e); }

template <class C, class E> static void run_kind(const char* name, Place place, bool sortable, bool hashed, const std::vector<std::string>& alphabet, const std::vector<E>& init1, const std::vector<E>& init2, int maxlen, bool strings) {
   const char seps[] = {',', ';', '.'};
   for (int si = 0; si < (vf::thorough() ? 3 : 2); ++si) for (int clear = 0; clear < 2; ++clear) for (int sort = 0; sort < 2; ++sort) for (int uniq = 0; uniq < 3; ++uniq)
   for (int mv = 0; mv < 2; ++mv) for (int chk = 0; chk < (strings ? 1 : 2); ++chk) for (int init = 0; init < 3; ++init) for (int upper = 0; upper < (strings ? 3 : 1); ++upper) {
      ++g_case;
      if (!vf::want_case()) continue;
      Opt o; o.sep = seps[si]; o.clear = clear; o.sort = sort; o.unique = uniq; o.multival = mv; o.check = chk; o.init = init; o.upper = upper;
      vf::note(std::string(name) + " " + opt_text(o));
      std::vector<E> initial = init == 0 ? std::vector<E>() : init == 1 ? init1 : init2;
      // does the destination accept the options at all?
      auto define = [&](Handler& h, C& dest) -> bool {
         try {
            auto* t = h.addArgument("v", destination(dest, "dest"), "desc");
            if (o.sep != ',') t->setListSep(o.sep); if (o.clear) t->setClearBeforeAssign(); if (o.sort) t->setSortData(); if (o.unique) t->setUniqueData(o.unique == 2);
            if (o.multival) t->setTakesMultiValue(); if (o.check) t->addCheck(range(0, 5)); if (o.upper == 1) t->addFormat(uppercase()); if (o.upper == 2) t->addFormatPos(1, uppercase());
         } catch (const std::exception&) { return false; }
         return true;
      };
      { std::ostringstream a, b; Handler h(a, b, 0); C d; if (!define(h, d)) { ++g_skipped_option; continue; } }
      ++g_configs; vf::nontrivial_by_construction();
      for (int len = 1; len <= maxlen; ++len) {
         vf::Odometer od(std::vector<unsigned>(len, unsigned(alphabet.size())));
         while (od.next()) {
            std::vector<std::string> seq; for (int i = 0; i < len; ++i) seq.push_back(alphabet[od[i]]);
            for (auto& cut : all_cuts(seq)) for (int fv = 0; fv <= (o.multival && cut.size() > 1 ? 1 : 0); ++fv) {
               Fold<E> f; f.place = place; f.content = initial;
               if (place == SORTED_UNIQUE || place == SORTED_MULTI || place == HASH_UNIQUE || place == HASH_MULTI) std::sort(f.content.begin(), f.content.end());
               if (place == HEAP) std::sort(f.content.begin(), f.content.end(), std::greater<E>());
               fold_cut(f, o, cut, sortable);
               std::vector<std::string> words = words_of(cut, o.sep, fv == 1);
               std::ostringstream a, b; Handler h(a, b, 0); C dest; fill(dest, initial); define(h, dest);
               hc::Argv av(words); bool threw = false; std::string what;
               try { h.evalArguments(av.argc(), av.argv()); } catch (const std::exception& e) { threw = true; what = e.what(); } catch (...) { threw = true; what = "non-std exception"; }
               ++g_evals; vf::heartbeat();
               std::vector<E> got = to_list(dest); if (hashed) std::sort(got.begin(), got.end());
               vf::outcome(threw ? std::string(name) + " refuses" : std::string(name) + " " + show(got));
               if (vf::verbose()) printf("  %s %s init %s line %s -> %s %s %s (fold: %s %s)\n", name, opt_text(o).c_str(), show(initial).c_str(), hc::words_text(words).c_str(), threw ? "throws" : "returns", what.c_str(), show(got).c_str(), f.fail ? "must refuse:" : "", f.fail ? f.why.c_str() : show(f.content).c_str());
               std::string ctx = std::string(name) + " " + opt_text(o) + " initial " + show(initial) + " line " + hc::words_text(words);
               std::string sig = std::string(name) + "|" + (o.sort ? "sort" : "") + (o.unique ? "+unique" : "") + (o.clear ? "+clear" : "") + (o.check ? "+check" : "") + (fv ? "+freevalues" : "") + (init ? "+initial" : "") + (o.upper == 2 ? "+posformat" : "");
               if (f.fail) { ++g_expect_throw; if (!threw) vf::violation("accepted|" + sig, ctx + ": " + f.why + ", but evaluation returned with " + show(got), std::to_string(vf::current_case())); }
               else if (threw) vf::violation("rejected|" + sig, ctx + ": rejected (" + what + "), fold gives " + show(f.content), std::to_string(vf::current_case()));
               else if (got != f.content) vf::violation("content|" + sig, ctx + ": container holds " + show(got) + ", fold gives " + show(f.content), std::to_string(vf::current_case()));
            }
         }
         if (vf::deadline_hit()) return;
      }
      if (g_configs % 61 == 1) vf::sample(std::string(name) + " " + opt_text(o) + ": all sequences of <= " + std::to_string(maxlen) + " elements over the alphabet, every cut into uses");
   }
}

static char g_fixed_sep = ',';      // list separator used when the cut is written as words (key-value kinds: ';')
static bool g_fixed_sort = false;    // option "sort" of the fixed-size kinds (arrays only; the others report it as not applicable)
// ---- fixed-size and bit-set kinds: simpler option space (separator, clear, unique for arrays, initial content)
template <class Def, class Read> static void run_fixed(const char* name, const std::vector<std::string>& alphabet, int maxlen, Def&& define, Read&& expect) {
   for (int srt = 0; srt < 2; ++srt) for (int clear = 0; clear < 2; ++clear) for (int uniq = 0; uniq < 3; ++uniq) for (int init = 0; init < 2; ++init) {
      if (!vf::want_case()) continue;
      g_fixed_sort = srt != 0;
      vf::note(name); ++g_configs; vf::nontrivial_by_construction();
      for (int len = 1; len <= maxlen; ++len) {
         vf::Odometer od(std::vector<unsigned>(len, unsigned(alphabet.size())));
         while (od.next()) {
            std::vector<std::string> seq; for (int i = 0; i < len; ++i) seq.push_back(alphabet[od[i]]);
            for (auto& cut : all_cuts(seq)) {
               std::vector<std::string> words = words_of(cut, g_fixed_sep, false);
               std::string got, exp; bool must_throw = false, applicable = true, threw = false; std::string what;
               define(words, clear != 0, uniq, init, got, threw, what, applicable);
               if (!applicable) { ++g_skipped_option; continue; }
               expect(seq, clear != 0, uniq, init, exp, must_throw);
               ++g_evals; vf::heartbeat(); vf::outcome(threw ? std::string(name) + " refuses" : std::string(name) + " " + got);
               if (vf::verbose()) printf("  %s clear=%d unique=%d init=%d line %s -> %s %s %s (expected %s%s)\n", name, clear, uniq, init, hc::words_text(words).c_str(), threw ? "throws" : "returns", what.c_str(), got.c_str(), must_throw ? "refusal " : "", exp.c_str());
               std::string ctx = std::string(name) + (clear ? " clear" : "") + (uniq == 1 ? " unique" : uniq == 2 ? " unique(error)" : "") + " init" + std::to_string(init) + " line " + hc::words_text(words);
               std::string sig = std::string(name) + "|" + (uniq ? "unique" : "") + (clear ? "+clear" : "") + (init ? "+initial" : "") + (g_fixed_sort ? "+sort" : "");
               ctx += g_fixed_sort ? " sort" : "";
               if (must_throw) { ++g_expect_throw; if (!threw) vf::violation("accepted|" + sig, ctx + ": must be refused (" + exp + ") but returned with " + got, std::to_string(vf::current_case())); }
               else if (threw) vf::violation("rejected|" + sig, ctx + ": rejected (" + what + "), expected " + exp, std::to_string(vf::current_case()));
               else if (got != exp) vf::violation("content|" + sig, ctx + ": destination holds " + got + ", expected " + exp, std::to_string(vf::current_case()));
            }
         }
      }
   }
}

int main(int argc, char** argv) {
   vf::init(argc, argv);
   if (vf::replaying()) { vf::ctx().only = strtoll(vf::replay_case().c_str(), nullptr, 10); vf::ctx().have_replay = false; }
   const int maxlen = vf::deep() ? 5 : vf::thorough() ? 4 : 3;
   const std::vector<std::string> ia{"0", "1", "2", "7", "14"}; const std::vector<int> i1{4}, i2{4, 2};      // 14 shares a hash bucket with 1 (13 buckets) and is out of range like 7
   run_kind<std::vector<int>, int>("vector<int>", BACK, true, false, ia, i1, i2, maxlen, false);
   run_kind<std::deque<int>, int>("deque<int>", BACK, true, false, ia, i1, i2, maxlen, false);
   run_kind<std::list<int>, int>("list<int>", BACK, true, false, ia, i1, i2, maxlen, false);
   run_kind<std::forward_list<int>, int>("forward_list<int>", FRONT, true, false, ia, i1, i2, maxlen, false);
   run_kind<std::set<int>, int>("set<int>", SORTED_UNIQUE, false, false, ia, i1, i2, maxlen, false);
   run_kind<std::multiset<int>, int>("multiset<int>", SORTED_MULTI, false, false, ia, i1, i2, maxlen, false);
   run_kind<std::unordered_set<int>, int>("unordered_set<int>", HASH_UNIQUE, false, true, ia, i1, i2, maxlen, false);
   run_kind<std::unordered_multiset<int>, int>("unordered_multiset<int>", HASH_MULTI, false, true, ia, i1, i2, maxlen, false);
   run_kind<std::queue<int>, int>("queue<int>", BACK, false, false, ia, i1, i2, maxlen, false);
   run_kind<std::stack<int>, int>("stack<int>", LIFO, false, false, ia, i1, i2, maxlen, false);
   run_kind<std::priority_queue<int>, int>("priority_queue<int>", HEAP, false, false, ia, i1, i2, maxlen, false);
   const std::vector<std::string> sa{"a", "b", "B"}; const std::vector<std::string> s1{"x"}, s2{"x", "A"};
   run_kind<std::vector<std::string>, std::string>("vector<string>", BACK, true, false, sa, s1, s2, maxlen, true);
   run_kind<std::set<std::string>, std::string>("set<string>", SORTED_UNIQUE, false, false, sa, s1, s2, maxlen, true);

   // ---- int[3] and std::array<int,3>: elements fill the slots in order; element 4 is refused; unique drops/refuses duplicates
   auto array_expect = [](const std::vector<std::string>& seq, bool, int uniq, int init, std::string& exp, bool& must_throw) {
      std::vector<int> slots{init ? 9 : 0, init ? 9 : 0, init ? 9 : 0}; size_t n = 0;
      for (auto& t : seq) { int v = atoi(t.c_str()); if (n == 3) { must_throw = true; exp = "a 4th element for 3 slots"; return; }
         bool dup = false; for (size_t i = 0; i < n; ++i) if (slots[i] == v) dup = true;
         if (uniq && dup) { if (uniq == 2) { must_throw = true; exp = "duplicate " + t; return; } continue; }
         slots[n++] = v; }
      if (g_fixed_sort) std::sort(slots.begin(), slots.begin() + n);
      exp = show(slots) + " filled " + std::to_string(n);
   };
   run_fixed("int[3]", ia, 4, [](const std::vector<std::string>& words, bool clear, int uniq, int init, std::string& got, bool& threw, std::string& what, bool& applicable) {
      int arr[3] = {init ? 9 : 0, init ? 9 : 0, init ? 9 : 0}; std::ostringstream a, b; Handler h(a, b, 0);
      try { auto* t = h.addArgument("v", destination(arr, "arr"), "desc"); if (clear) { applicable = false; return; } if (uniq) t->setUniqueData(uniq == 2); if (g_fixed_sort) t->setSortData(); } catch (const std::exception&) { applicable = false; return; }
      hc::Argv av(words); try { h.evalArguments(av.argc(), av.argv()); } catch (const std::exception& e) { threw = true; what = e.what(); }
      got = show(std::vector<int>(arr, arr + 3)); }, [&](const std::vector<std::string>& seq, bool c, int u, int i, std::string& exp, bool& mt) { array_expect(seq, c, u, i, exp, mt); if (!mt) exp = exp.substr(0, exp.find(" filled")); });
   run_fixed("array<int,3>", ia, 4, [](const std::vector<std::string>& words, bool clear, int uniq, int init, std::string& got, bool& threw, std::string& what, bool& applicable) {
      std::array<int, 3> arr{init ? 9 : 0, init ? 9 : 0, init ? 9 : 0}; std::ostringstream a, b; Handler h(a, b, 0);
      try { auto* t = h.addArgument("v", destination(arr, "arr"), "desc"); if (clear) { applicable = false; return; } if (uniq) t->setUniqueData(uniq == 2); if (g_fixed_sort) t->setSortData(); } catch (const std::exception&) { applicable = false; return; }
      hc::Argv av(words); try { h.evalArguments(av.argc(), av.argv()); } catch (const std::exception& e) { threw = true; what = e.what(); }
      got = show(std::vector<int>(arr.begin(), arr.end())); }, [&](const std::vector<std::string>& seq, bool c, int u, int i, std::string& exp, bool& mt) { array_expect(seq, c, u, i, exp, mt); if (!mt) exp = exp.substr(0, exp.find(" filled")); });

   // ---- bit sets: every value is a position to set; bitset<5> refuses positions >= 5; vector<bool>/DynamicBitset grow
   const std::vector<std::string> ba{"0", "1", "4", "7", "12"};
   auto bits_expect = [](size_t limit, size_t init_bit) { return [limit, init_bit](const std::vector<std::string>& seq, bool clear, int, int init, std::string& exp, bool& must_throw) {
      std::set<size_t> s; if (init && !clear) s.insert(init_bit);
      for (auto& t : seq) { size_t p = size_t(atoi(t.c_str())); if (p >= limit) { must_throw = true; exp = "position " + t + " outside the bit set"; return; } s.insert(p); }
      std::ostringstream o; for (size_t p : s) o << p << " "; exp = o.str(); }; };
   run_fixed("bitset<5>", ba, 3, [](const std::vector<std::string>& words, bool clear, int uniq, int init, std::string& got, bool& threw, std::string& what, bool& applicable) {
      if (uniq || g_fixed_sort) { applicable = false; return; }
      std::bitset<5> bs; if (init) bs.set(1); std::ostringstream a, b; Handler h(a, b, 0);
      try { auto* t = h.addArgument("v", destination(bs, "bs"), "desc"); if (clear) t->setClearBeforeAssign(); } catch (const std::exception&) { applicable = false; return; }
      hc::Argv av(words); try { h.evalArguments(av.argc(), av.argv()); } catch (const std::exception& e) { threw = true; what = e.what(); }
      std::ostringstream o; for (size_t i = 0; i < 5; ++i) if (bs[i]) o << i << " "; got = o.str(); }, bits_expect(5, 1));
   run_fixed("vector<bool>", ba, 3, [](const std::vector<std::string>& words, bool clear, int uniq, int init, std::string& got, bool& threw, std::string& what, bool& applicable) {
      if (uniq || g_fixed_sort) { applicable = false; return; }
      std::vector<bool> vb; if (init) { vb.resize(1); vb[0] = true; } /* one element: the next position is exactly size() */ std::ostringstream a, b; Handler h(a, b, 0);
      try { auto* t = h.addArgument("v", destination(vb, "vb"), "desc"); if (clear) t->setClearBeforeAssign(); } catch (const std::exception&) { applicable = false; return; }
      hc::Argv av(words); try { h.evalArguments(av.argc(), av.argv()); } catch (const std::exception& e) { threw = true; what = e.what(); }
      std::ostringstream o; for (size_t i = 0; i < vb.size(); ++i) if (vb[i]) o << i << " "; got = o.str(); }, bits_expect(size_t(-1), 0));
   run_fixed("DynamicBitset", ba, 3, [](const std::vector<std::string>& words, bool clear, int uniq, int init, std::string& got, bool& threw, std::string& what, bool& applicable) {
      if (uniq || g_fixed_sort) { applicable = false; return; }
      celma::container::DynamicBitset db(init ? 1 : 0); if (init) db.set(0); std::ostringstream a, b; Handler h(a, b, 0);
      try { auto* t = h.addArgument("v", destination(db, "db"), "desc"); if (clear) t->setClearBeforeAssign(); } catch (const std::exception&) { applicable = false; return; }
      hc::Argv av(words); try { h.evalArguments(av.argc(), av.argv()); } catch (const std::exception& e) { threw = true; what = e.what(); }
      std::ostringstream o; for (size_t i = 0; i < db.size(); ++i) if (db.test(i)) o << i << " "; got = o.str(); }, bits_expect(size_t(-1), 0));

   // ---- tuple<int,string,int>: exactly three values, however they are cut into uses
   run_fixed("tuple<int,string,int>", {"1", "ab", "3"}, 4, [](const std::vector<std::string>& words, bool clear, int uniq, int init, std::string& got, bool& threw, std::string& what, bool& applicable) {
      if (uniq || clear || init || g_fixed_sort) { applicable = false; return; }
      std::tuple<int, std::string, int> tp{-1, "-", -1}; std::ostringstream a, b; Handler h(a, b, 0);
      try { h.addArgument("v", destination(tp, "tp"), "desc"); } catch (const std::exception&) { applicable = false; return; }
      hc::Argv av(words); try { h.evalArguments(av.argc(), av.argv()); } catch (const std::exception& e) { threw = true; what = e.what(); }
      got = std::to_string(std::get<0>(tp)) + "|" + std::get<1>(tp) + "|" + std::to_string(std::get<2>(tp)); },
      [](const std::vector<std::string>& seq, bool, int, int, std::string& exp, bool& must_throw) {
         if (seq.size() != 3) { must_throw = true; exp = std::to_string(seq.size()) + " values for a tuple of 3"; return; }
         long long x; if (!hc::conv_int(seq[0], x) || !hc::conv_int(seq[2], x)) { must_throw = true; exp = "element does not convert to int"; return; }
         exp = seq[0] + "|" + seq[1] + "|" + seq[2]; });

   // ---- key-value destinations: every element is a pair "key,value", pairs separated by ';'. map/unordered_map keep the FIRST value of a key
   //      (their own placement rule: insert), the multi variants keep every pair; unique refers to the key
   g_fixed_sep = ';';
   const std::vector<std::string> ka{"1,a", "2,b", "1,c", "7,x"};
   auto kv_expect = [](bool multi) { return [multi](const std::vector<std::string>& seq, bool clear, int uniq, int init, std::string& exp, bool& must_throw) {
      std::vector<std::pair<int, std::string>> c; if (init && !clear) c.push_back({4, "i"});
      for (auto& t : seq) { int k = atoi(t.c_str()); std::string v = t.substr(t.find(',') + 1); bool has = false; for (auto& e : c) has = has || e.first == k;
         if (uniq && has) { if (uniq == 2) { must_throw = true; exp = "duplicate key " + std::to_string(k); return; } continue; }
         if (!multi && has) continue;
         c.push_back({k, v}); }
      std::stable_sort(c.begin(), c.end(), [](const std::pair<int, std::string>& a, const std::pair<int, std::string>& b) { return a.first < b.first; });
      std::ostringstream o; for (auto& e : c) o << e.first << "=" << e.second << " "; exp = o.str(); }; };
   auto kv_run = [](auto dest, bool hashed) { return [dest, hashed](const std::vector<std::string>& words, bool clear, int uniq, int init, std::string& got, bool& threw, std::string& what, bool& applicable) mutable {
      if (g_fixed_sort) { applicable = false; return; }
      auto m = dest; if (init) m.insert({4, "i"}); std::ostringstream a, b; Handler h(a, b, 0);
      try { auto* t = h.addArgument("v", destination(m, "kv"), "desc"); if (clear) t->setClearBeforeAssign(); if (uniq) t->setUniqueData(uniq == 2); } catch (const std::exception&) { applicable = false; return; }
      hc::Argv av(words); try { h.evalArguments(av.argc(), av.argv()); } catch (const std::exception& e) { threw = true; what = e.what(); }
      std::vector<std::pair<int, std::string>> c(m.begin(), m.end());
      if (hashed) std::sort(c.begin(), c.end()); else std::stable_sort(c.begin(), c.end(), [](const std::pair<int, std::string>& x, const std::pair<int, std::string>& y) { return x.first < y.first; });
      std::ostringstream o; for (auto& e : c) o << e.first << "=" << e.second << " "; got = o.str(); }; };
   // for the hashed multi variant the order of equal keys is unspecified: the expectation is sorted by (key, value) as well
   auto kv_expect_sorted = [&](bool multi) { return [multi, &kv_expect](const std::vector<std::string>& seq, bool clear, int uniq, int init, std::string& exp, bool& must_throw) {
      kv_expect(multi)(seq, clear, uniq, init, exp, must_throw); if (must_throw) return;
      std::vector<std::string> parts; std::istringstream is(exp); std::string w; while (is >> w) parts.push_back(w);
      std::vector<std::pair<int, std::string>> c; for (auto& x : parts) c.push_back({atoi(x.c_str()), x.substr(x.find('=') + 1)}); std::sort(c.begin(), c.end());
      std::ostringstream o; for (auto& e : c) o << e.first << "=" << e.second << " "; exp = o.str(); }; };
   run_fixed("map<int,string>", ka, 3, kv_run(std::map<int, std::string>(), false), kv_expect(false));
   run_fixed("multimap<int,string>", ka, 3, kv_run(std::multimap<int, std::string>(), false), kv_expect(true));
   run_fixed("unordered_map<int,string>", ka, 3, kv_run(std::unordered_map<int, std::string>(), true), kv_expect_sorted(false));
   run_fixed("unordered_multimap<int,string>", ka, 3, kv_run(std::unordered_multimap<int, std::string>(), true), kv_expect_sorted(true));
   g_fixed_sep = ',';

   vf::count("evaluations", g_evals); vf::count("transitions", g_evals); vf::count("states", g_configs);
   vf::count("option_combinations_not_supported_by_destination", g_skipped_option); vf::count("lines_that_must_be_refused", g_expect_throw); vf::count("duplicate_elements_met", g_dups);
   vf::outcome(g_expect_throw ? "refusals exercised" : "no refusals"); vf::outcome(g_dups ? "duplicates exercised" : "no duplicates");
   vf::finish();
   return 0;
}
