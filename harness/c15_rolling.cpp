// C15  Rolling log files keep the most recent messages, complete and in order            (engine E1 xstate, history search + crash points)
//
// system      : the real celma::log::files::Handler<Counted> / Handler<MaxSize> writing REAL files into a scratch directory owned by
//               this worker; formatter writes the bare message text; file name "<dir>/log.<generation>.txt" (no date part)
// configuration: Counted(maxEntries 1..3) and MaxSize(maxBytes 5, 8, 12, 20) x generations 1..3
// events      : m1, m3, m6  = message of 1/3/6 characters (unique text: sequence digit + letters)
//               R           = clean restart (handler destroyed, new handler on the same file set)
//               C           = crash between two events (handler abandoned without destruction, new handler)          [thorough]
//               mL!k        = message whose roll-over crashes at rename point k (k renames done, then the process "dies": the
//                             injected file-function object throws, the handler is abandoned, a new one is started)      [thorough]
// exploration : every history up to the depth bound, executed from an empty directory; oracle after EVERY event
// oracle      : (I1) generations read oldest -> newest concatenate, line-exact, to a SUFFIX of all messages written so far
//               (I3) every generation respects its limit (lines <= maxEntries; bytes <= maxBytes unless it holds one single message)
//               (I5) no more than the configured number of generation files
//               (T)  transition check against the state before the event: a message is either appended to generation 0 and nothing
//                    else changes, or a roll-over happened (gen k -> gen k+1, oldest dropped, gen 0 = the message) and then only if
//                    generation 0 could not take the message; a restart changes nothing (a roll-over at restart is tolerated when
//                    generation 0 cannot take even the shortest message)
#include "engine/common.hpp"
#include "celma/log/files/counted.hpp"
#include "celma/log/files/max_size.hpp"
#include "celma/log/files/handler.hpp"
#include "celma/log/filename/creator.hpp"
#include "celma/log/filename/definition.hpp"
#include "celma/log/detail/i_format_stream.hpp"
#include "celma/log/detail/log_msg.hpp"
#include "celma/common/file_operations.hpp"
#include "celma/common/detail/file_funcs_os.hpp"
#include <fstream>
#include <sstream>
#include <sys/stat.h>
#include <dirent.h>
using namespace celma::log;

struct CrashNow {};          // deliberately not a std::exception
static int g_crash_at = -1, g_renames = 0, g_renames_expected = 0; static bool g_crash_reached = false;
// crash point k of a roll-over = "k renames done": thrown before rename k+1, or - for k == number of renames of a roll-over -
// right after the last one (generation 0 renamed away, new generation 0 not yet opened). All real work is delegated to the
// library's own FileFuncsOs.
class CountingFileFuncs final : public celma::common::detail::FileFuncsBase {
   celma::common::detail::FileFuncsOs real;
public:
   int rename(const std::string& dest, const std::string& src) override {
      if (g_crash_at >= 0 && g_renames == g_crash_at) { g_crash_reached = true; throw CrashNow(); }
      int rc = real.rename(dest, src); ++g_renames;
      if (g_crash_at >= 0 && g_renames == g_crash_at && g_renames == g_renames_expected) { g_crash_reached = true; throw CrashNow(); }
      return rc;
   }
   int remove(const std::string& f) override { return real.remove(f); }
   int mkdir(const std::string& d, int mode) override { return real.mkdir(d, mode); }
};
class BareFormatter final : public detail::IFormatStream { void format(std::ostream& out, const detail::LogMsg& msg) const override { out << msg.getText(); } };

struct Config { bool counted; size_t limit; int gens; std::string text() const { return std::string(counted ? "Counted(maxEntries=" : "MaxSize(maxBytes=") + std::to_string(limit) + ", generations=" + std::to_string(gens) + ")"; } };
struct Event { char type; int len; int crash; };      // type 'm' 'R' 'C'; crash = -1 none, else rename point
static std::string ev_text(const Event& e) { if (e.type != 'm') return std::string(1, e.type); return "m" + std::to_string(e.len) + (e.crash >= 0 ? "!" + std::to_string(e.crash) : ""); }
static std::string hist_text(const std::vector<Event>& h) { std::string s; for (auto& e : h) s += (s.empty() ? "" : " ") + ev_text(e); return s; }

static std::string g_dir;
typedef std::vector<std::vector<std::string>> Disk;      // index = generation number; a missing file = vector with the single element "\x01missing"
static const std::string MISSING = "\x01missing";
static std::string gen_name(int g) { return g_dir + "/log." + std::to_string(g) + ".txt"; }
static void clear_dir() { for (int g = 0; g < 8; ++g) ::unlink(gen_name(g).c_str()); }
static bool read_disk(Disk& d, std::string& problem) {
   d.clear(); problem.clear();
   for (int g = 0; g < 6; ++g) {
      std::ifstream f(gen_name(g), std::ios::binary); std::vector<std::string> lines;
      if (!f) { lines.push_back(MISSING); d.push_back(lines); continue; }
      std::string all((std::istreambuf_iterator<char>(f)), std::istreambuf_iterator<char>());
      if (!all.empty() && all.back() != '\n') problem = "generation " + std::to_string(g) + " does not end with a newline (truncated message): '" + vf::vis(all) + "'";
      size_t p = 0; while (p < all.size()) { size_t q = all.find('\n', p); if (q == std::string::npos) q = all.size(); lines.push_back(all.substr(p, q - p)); p = q + 1; }
      d.push_back(lines);
   }
   return problem.empty();
}
static bool missing(const std::vector<std::string>& g) { return g.size() == 1 && g[0] == MISSING; }
static size_t bytes_of(const std::vector<std::string>& g) { size_t n = 0; if (missing(g)) return 0; for (auto& l : g) n += l.size() + 1; return n; }
static std::string disk_text(const Disk& d) {
   std::string s;
   for (size_t g = 0; g < d.size(); ++g) { if (missing(d[g])) continue; s += "gen" + std::to_string(g) + "=["; for (size_t i = 0; i < d[g].size(); ++i) s += (i ? "," : "") + d[g][i]; s += "] "; }
   return s.empty() ? "(no files)" : s;
}
static std::string disk_shape(const Disk& d) {     // canonical state without message identities: per generation the message lengths
   std::string s;
   for (size_t g = 0; g < d.size(); ++g) { if (missing(d[g])) { s += "-|"; continue; } for (auto& l : d[g]) s += std::to_string(l.size()) + ","; s += "|"; }
   return s;
}

struct Sys {
   std::unique_ptr<files::Handler<files::Counted>> hc; std::unique_ptr<files::Handler<files::MaxSize>> hm;
   void start(const Config& c) {
      filename::Definition def; filename::Creator cr(def); cr << (g_dir + "/log.") << filename::number << ".txt";
      if (c.counted) { hc.reset(new files::Handler<files::Counted>(new files::Counted(def, c.limit, c.gens))); hc->setFormatter(new BareFormatter); }
      else { hm.reset(new files::Handler<files::MaxSize>(new files::MaxSize(def, c.limit, c.gens))); hm->setFormatter(new BareFormatter); }
   }
   void message(const std::string& text) {
      detail::LogMsg m("file.cpp", "function", 1); m.setLevel(LogLevel::info); m.setClass(LogClass::operatorAction); m.setText(text); m.setTimestamp(1000);
      if (hc) hc->handleMessage(m); else hm->handleMessage(m);
   }
   void stop() { hc.reset(); hm.reset(); }
   // crash: the object is abandoned - no destructor runs before the next handler starts. The abandoned objects are kept in a
   // graveyard and only destroyed when the whole history (with all its checks) is over: all data is flushed after every message,
   // so the late destructor only closes a file descriptor (otherwise the worker would run out of descriptors).
   std::vector<std::unique_ptr<files::Handler<files::Counted>>> gc; std::vector<std::unique_ptr<files::Handler<files::MaxSize>>> gm;
   void abandon() { if (hc) gc.push_back(std::move(hc)); if (hm) gm.push_back(std::move(hm)); }
   std::string counters() { if (hc) return "entries=" + std::to_string(hc->mpFilePolicy->mNumberOfEntries); if (hm) return "size=" + std::to_string(hm->mpFilePolicy->mCurrentFilesize); return ""; }
};

static uint64_t g_events = 0, g_histories = 0, g_rolls = 0, g_crash_hist = 0, g_pruned = 0, g_drops = 0, g_restarts = 0;
static std::set<std::string> g_states;

static void viol(const std::string& sig, const std::string& what, const Config& c, const std::vector<Event>& h, const Disk& before, const Disk& after) {
   vf::violation(sig, what + "\n  policy: " + c.text() + "\n  history: " + hist_text(h) + "\n  files before the last event: " + disk_text(before) + "\n  files after: " + disk_text(after), c.text() + " | " + hist_text(h));
}

// executes the history from an empty directory; checks the oracle after every event >= check_from. returns false if the history is to be pruned
static bool run_history(const Config& c, const std::vector<Event>& h, size_t check_from) {
   clear_dir();
   Sys s; std::vector<std::string> all; Disk before, after; std::string prob; int seq = 0;
   std::string csig = std::string(c.counted ? "counted" : "maxsize") + (c.gens == 1 ? "|1gen" : "|ngen");
   try { s.start(c); } catch (const std::exception& e) { viol("start-throws|" + csig, std::string("creating the handler on an empty directory throws: ") + e.what(), c, h, before, after); return false; }
   read_disk(before, prob);
   for (size_t i = 0; i < h.size(); ++i) {
      const Event& e = h[i]; std::vector<Event> upto(h.begin(), h.begin() + i + 1);
      vf::note(c.text() + " | " + hist_text(upto));
      std::string text; bool crashed = false; ++g_events; vf::heartbeat();
      if (e.type == 'm') {
         ++seq; text = std::string(1, char('0' + seq % 10)) + std::string(e.len - 1, char('a' + seq % 26));
         g_crash_at = e.crash; g_renames = 0; g_crash_reached = false; g_renames_expected = c.gens - 1;
         try { s.message(text); }
         catch (const CrashNow&) { crashed = true; }
         catch (const std::exception& ex) { g_crash_at = -1; read_disk(after, prob); viol("message-throws|" + csig, std::string("writing a message throws: ") + ex.what(), c, upto, before, after); s.abandon(); return false; }
         g_crash_at = -1;
         if (e.crash >= 0 && !crashed) {
            ++g_pruned; s.abandon(); return false;
         }
         if (crashed) {
            s.abandon();
            try { s.start(c); ++g_restarts; } catch (const std::exception& ex) { read_disk(after, prob); viol("restart-after-crash-throws|" + csig, std::string("restart after a crash inside the roll-over throws: ") + ex.what(), c, upto, before, after); return false; }
         } else all.push_back(text);
      } else {
         if (e.type == 'R') s.stop(); else s.abandon();
         try { s.start(c); ++g_restarts; } catch (const std::exception& ex) { read_disk(after, prob); viol("restart-throws|" + csig, std::string("re-opening the log files throws: ") + ex.what(), c, upto, before, after); return false; }
      }
      bool readable = read_disk(after, prob);
      if (i >= check_from) {
         if (!readable) viol("truncated-message|" + csig, prob, c, upto, before, after);
         // I5
         for (size_t g = c.gens; g < after.size(); ++g) if (!missing(after[g])) { viol("too-many-generations|" + csig, "generation file " + std::to_string(g) + " exists", c, upto, before, after); break; }
         // I3
         for (int g = 0; g < c.gens; ++g) if (!missing(after[g])) {
            if (c.counted && after[g].size() > c.limit) { viol("generation-over-limit|" + csig, "generation " + std::to_string(g) + " has " + std::to_string(after[g].size()) + " entries", c, upto, before, after); break; }
            if (!c.counted && bytes_of(after[g]) > c.limit && after[g].size() > 1) { viol("generation-over-limit|" + csig, "generation " + std::to_string(g) + " has " + std::to_string(bytes_of(after[g])) + " bytes in " + std::to_string(after[g].size()) + " messages", c, upto, before, after); break; }
         }
         // I1
         std::vector<std::string> cat; for (int g = int(after.size()) - 1; g >= 0; --g) if (!missing(after[g])) cat.insert(cat.end(), after[g].begin(), after[g].end());
         bool suffix = cat.size() <= all.size() && std::equal(cat.begin(), cat.end(), all.end() - cat.size());
         if (!suffix) {
            std::string kind = "not-a-suffix";
            if (!all.empty() && (cat.empty() || cat.back() != all.back()) && e.type == 'm' && !crashed) kind = "newest-message-missing";
            else if (e.type != 'm') kind = "content-lost-at-restart";
            viol("retained-messages-" + kind + "|" + csig + "|" + std::string(1, e.type), "the generations, read oldest to newest, are not the most recent messages in the order written", c, upto, before, after);
         }
         // T
         if (!crashed) {
            auto rolled_from = [&](const Disk& b, const Disk& a, const std::vector<std::string>& newgen0, bool allow_absent0) {
               if (!(a[0] == newgen0 || (allow_absent0 && missing(a[0])))) return false;
               for (int g = 1; g < int(a.size()); ++g) { const std::vector<std::string>& want = g < c.gens ? b[g - 1] : std::vector<std::string>{MISSING};
                  // a generation whose source did not exist keeps its old file (rename fails and is ignored)
                  if (g < c.gens && missing(b[g - 1])) { if (!(a[g] == b[g])) return false; continue; }
                  if (!(a[g] == want)) return false; }
               return true;
            };
            const std::vector<std::string> g0 = missing(before[0]) ? std::vector<std::string>{} : before[0];
            if (e.type == 'm') {
               std::vector<std::string> appended = g0; appended.push_back(text);
               bool same_rest = true; for (size_t g = 1; g < after.size(); ++g) same_rest = same_rest && after[g] == before[g];
               bool is_append = after[0] == appended && same_rest;
               bool is_roll = rolled_from(before, after, {text}, false);
               bool fits = c.counted ? g0.size() + 1 <= c.limit : bytes_of(g0) + text.size() + 1 <= c.limit;
               if (is_roll && !is_append) { ++g_rolls; if (c.gens >= 1 && !missing(before[c.gens - 1]) && !(c.gens == 1 && g0.empty())) ++g_drops; }
               if (!is_append && !is_roll) viol("message-transition|" + csig, "after the message the files are neither 'appended to generation 0' nor 'rolled over'", c, upto, before, after);
               else if (is_roll && !is_append && fits) viol("rolled-although-message-fits|" + csig + (i > 0 && h[i - 1].type != 'm' ? "|after-restart" : ""), "a new generation was started although generation 0 could take the message", c, upto, before, after);
               else if (is_append && !fits && g0.size() >= 1) viol("appended-although-over-limit|" + csig, "the message was appended although generation 0 could not take it", c, upto, before, after);
            } else {
               bool unchanged = true; for (size_t g = 0; g < after.size(); ++g) unchanged = unchanged && (after[g] == before[g] || (g == 0 && missing(before[0]) && after[0].empty()));
               bool full = c.counted ? g0.size() >= c.limit : bytes_of(g0) + 2 > c.limit;
               bool tolerated_roll = full && rolled_from(before, after, {}, true);
               if (!unchanged && !tolerated_roll) viol("restart-changes-files|" + csig, "a restart changed the log files", c, upto, before, after);
            }
         }
      }
      if (g_states.size() < 200000) g_states.insert(c.text() + "#" + disk_shape(after) + "#" + s.counters());
      before = after;
   }
   s.stop();
   return true;
}

static void explore(const Config& c, std::vector<Event>& h, int depth, const std::vector<Event>& alphabet) {
   for (auto& e : alphabet) {
      if (vf::deadline_hit()) return;
      h.push_back(e);
      bool ok = run_history(c, h, h.size() - 1);
      if (ok) { ++g_histories; if (e.crash >= 0) ++g_crash_hist; vf::outcome(c.text().substr(0, 7) + " " + ev_text(e)); if (int(h.size()) < depth) explore(c, h, depth, alphabet); }
      h.pop_back();
   }
}

int main(int argc, char** argv) {
   vf::init(argc, argv);
   char cwd[4096]; if (!getcwd(cwd, sizeof cwd)) return 3;
   g_dir = std::string(cwd) + "/logs"; mkdir(g_dir.c_str(), 0755);
   celma::common::FileOperations::setFuncImpl(new CountingFileFuncs);
   const bool th = vf::thorough();
   std::vector<Config> cfgs;
   for (int gens = 1; gens <= 3; ++gens) { for (size_t n = 1; n <= 3; ++n) cfgs.push_back({true, n, gens}); for (size_t b : {size_t(5), size_t(8), size_t(12), size_t(20)}) cfgs.push_back({false, b, gens}); }
   if (vf::replaying()) {
      // "<config text> | <history>"
      std::string r = vf::replay_case(); size_t bar = r.find(" | "); std::string ct = r.substr(0, bar), ht = bar == std::string::npos ? "" : r.substr(bar + 3);
      std::vector<Event> h; std::istringstream is(ht); std::string w;
      while (is >> w) { Event e{w[0], 0, -1}; if (w[0] == 'm') { e.len = atoi(w.c_str() + 1); size_t x = w.find('!'); if (x != std::string::npos) e.crash = atoi(w.c_str() + x + 1); } h.push_back(e); }
      for (auto& c : cfgs) if (c.text() == ct) { vf::ctx().next_case = 1; printf("replaying %s | %s\n", ct.c_str(), hist_text(h).c_str()); run_history(c, h, 0); }
      vf::finish(); return 0;
   }
   // alphabet and depth per tier; a case = (configuration, first two events) for sharding
   std::vector<Event> base = {{'m', 1, -1}, {'m', 3, -1}, {'m', 6, -1}, {'R', 0, -1}};
   std::vector<Event> ext = base;
   if (th) { ext.push_back({'C', 0, -1}); for (int len : {1, 3, 6}) for (int k = 0; k <= 2; ++k) ext.push_back({'m', len, k}); }
   const int depth_plain = vf::deep() ? 10 : th ? 8 : 6, depth_ext = vf::deep() ? 7 : 6;
   for (int pass = 0; pass < (th ? 2 : 1); ++pass) {
      const std::vector<Event>& alpha = pass == 0 ? base : ext; int depth = pass == 0 ? depth_plain : depth_ext;
      for (auto& c : cfgs) for (auto& e0 : alpha) for (auto& e1 : alpha) {
         if (!vf::want_case()) continue;
         std::vector<Event> h = {e0};
         if (!run_history(c, h, 0)) continue;
         h.push_back(e1);
         if (!run_history(c, h, 1)) continue;
         ++g_histories;
         explore(c, h, depth, alpha);
         vf::nontrivial_by_construction();
         if ((vf::current_case() % 29) == 0) vf::sample(c.text() + ": all histories of <= " + std::to_string(depth) + " events starting with '" + hist_text({e0, e1}) + "' over {" + hist_text(alpha) + "}");
      }
   }
   clear_dir();
   vf::count("evaluations", g_histories); vf::count("transitions", g_events); vf::count("states", g_states.size());
   vf::count("histories", g_histories); vf::count("roll_overs_observed", g_rolls); vf::count("roll_overs_that_dropped_the_oldest_generation", g_drops);
   vf::count("restarts", g_restarts); vf::count("histories_with_crash_inside_roll_over", g_crash_hist); vf::count("crash_points_not_reached_pruned", g_pruned);
   vf::finish();
   return 0;
}
