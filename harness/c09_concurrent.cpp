// C09  Independent handlers can be used concurrently                                     (engine E3 xsched)
//
// bodies (one per thread; no shared destination variables; each: construct handler, define arguments, evaluate, read back):
//   H1  vector<int> destination with separator ',', range check, 'excludes' constraint, an int
//   H2  vector<int> destination with separator ';', handler constraint any_of, a string with values() check
//   H3  map (key-value) destination + '-h' (usage printed to the handler's own stream; reaches Groups::instance())
//   H4  all standard arguments created through handler flags (function-local static description strings) + --help-arg
//   H5  a line that must be REJECTED (value outside the range) on a vector destination with separator '.'
// scenarios: solo runs (expected outcome of each body, taken from a run alone in a fresh process), every pair, the triple H1/H2/H5
// oracle per schedule: every thread's outcome (accept/reject + destination values + hash of the usage text) equals its solo outcome;
//   no data race on static storage or heap of the executable (vector-clock detector); no deadlock.
#include "engine/common.hpp"
#ifdef XS_FREE_RUNNING
#include "engine/sched/xsched_free.hpp"      // real libtsan, free-running threads (cross-check pass)
#else
#include "engine/sched/xsched.hpp"
#include "engine/sched/crosscheck.hpp"
#endif
#include "celma/prog_args.hpp"
#include "celma/prog_args/groups.hpp"
#include <thread>
#include <sstream>
#include <map>
#include <bitset>
#include <tuple>
#include <optional>
#include "celma/prog_args/eval_argument_string.hpp"
#include "celma/prog_args/level_counter.hpp"
using namespace celma::prog_args;

#ifndef XS_FREE_RUNNING
extern "C" void exit(int code) { fprintf(stderr, "UNEXPECTED-EXIT code %d\n", code); fflush(stderr); _exit(99); }
#endif

static std::string eval(Handler& h, std::vector<std::string> words) {
   std::vector<char*> av; std::string prog = "prog"; av.push_back(&prog[0]); for (auto& w : words) av.push_back(&w[0]); av.push_back(nullptr);
   try { h.evalArguments(int(av.size()) - 1, av.data()); return "accepted"; } catch (const std::exception& e) { return std::string("rejected(") + e.what() + ")"; }
}
static std::string vec_text(const std::vector<int>& v) { std::string s = "["; for (size_t i = 0; i < v.size(); ++i) s += (i ? "," : "") + std::to_string(v[i]); return s + "]"; }
static std::string h1() {
   std::ostringstream out, err; std::vector<int> l; int n = 0; bool q = false;
   Handler h(out, err, Handler::hfUsageCont);
   h.addArgument("l,list", DEST_VAR(l), "list")->addCheck(range(1, 100));
   h.addArgument("n,number", DEST_VAR(n), "number")->addConstraint(excludes("q"));
   h.addArgument("q", DEST_VAR(q), "quiet");
   std::string r = eval(h, {"-l", "1,2,3", "--number", "5", "--list=40,50"});
   return "H1 " + r + " " + vec_text(l) + " n=" + std::to_string(n);
}
static std::string h2() {
   std::ostringstream out, err; std::vector<int> v; std::string s; int a = 0, b = 0;
   Handler h(out, err, Handler::hfUsageCont);
   h.addArgument("v,values", DEST_VAR(v), "values")->setListSep(';');
   h.addArgument("s", DEST_VAR(s), "string")->addCheck(values("red,green,blue"));
   h.addArgument("a", DEST_VAR(a), "a"); h.addArgument("b", DEST_VAR(b), "b");
   h.addConstraint(any_of("a;b"));
   std::string r = eval(h, {"-v", "4;5;6", "-s", "green", "-a", "7"});
   return "H2 " + r + " " + vec_text(v) + " s=" + s + " a=" + std::to_string(a);
}
static std::string h3() {
   std::ostringstream out, err; std::map<std::string, int> kv; int x = 0;
   Handler h(out, err, Handler::hfHelpShort | Handler::hfHelpLong | Handler::hfUsageCont);
   h.addArgument("k,kv", DEST_VAR(kv), "key value pairs");
   h.addArgument("x", DEST_VAR(x), "an integer")->setIsMandatory();
   std::string r = eval(h, {"-k", "one,1;two,2", "-x", "3", "-h"});
   std::string kvs; for (auto& e : kv) kvs += e.first + "=" + std::to_string(e.second) + ",";
   return "H3 " + r + " {" + kvs + "} x=" + std::to_string(x) + " usage#" + std::to_string(vf::fnv(out.str()) % 1000000) + "/" + std::to_string(out.str().size());
}
static std::string h4() {
   std::ostringstream out, err; int v = 0;
   Handler h(out, err, Handler::hfHelpShort | Handler::hfHelpLong | Handler::hfHelpArg | Handler::hfListArgVar | Handler::hfEndValues | Handler::hfUsageShort | Handler::hfUsageLong | Handler::hfArgHidden | Handler::hfArgDeprecated | Handler::hfUsageCont);
   h.addArgument("v,value", DEST_VAR(v), "the value");
   std::string r = eval(h, {"--value", "9", "--help-arg", "v"});
   return "H4 " + r + " v=" + std::to_string(v) + " out#" + std::to_string(vf::fnv(out.str()) % 1000000) + "/" + std::to_string(out.str().size());
}
static std::string h5() {
   std::ostringstream out, err; std::vector<int> p; int m = 0;
   Handler h(out, err, Handler::hfUsageCont);
   h.addArgument("p,points", DEST_VAR(p), "points")->setListSep('.')->addCheck(range(1, 10));
   h.addArgument("m", DEST_VAR(m), "m");
   std::string r = eval(h, {"-m", "2", "-p", "3.4.50.6"});
   return "H5 " + r.substr(0, 8) + " " + vec_text(p) + " m=" + std::to_string(m);
}
// "kitchen sink" bodies: two handlers that use (nearly) every feature of the library with DIFFERENT keys, lists, separators and values, so that
// state hoisted to static scope in ANY feature is shared by two threads that need different contents
template <int V> static std::string kitchen() {
   std::ostringstream out, err;
   std::vector<int> vi; std::vector<std::string> vs; int i1 = 0, i2 = 0; std::string s1, pos; std::optional<int> o; std::tuple<int, std::string> t{0, ""}; std::bitset<8> b;
   std::map<std::string, int> kv; LevelCounter lc; bool f1 = false, f2 = false; int subv = 0; bool subf = false; double d = 0;
   Handler h(out, err, Handler::hfHelpShort | Handler::hfHelpLong | Handler::hfHelpArg | Handler::hfUsageCont | Handler::hfListArgVar | Handler::hfEndValues);
   Handler sub(h, 0);
   h.addArgument(V ? "l,list" : "m,members", DEST_VAR(vi), "a list")->setListSep(V ? ':' : ',')->addCheck(range(1, V ? 100 : 50))->setUniqueData();
   h.addArgument("w,words", DEST_VAR(vs), "words")->addFormat(V ? uppercase() : lowercase())->setListSep(V ? '+' : '/');
   h.addArgument("i", DEST_VAR(i1), "first int")->addCheck(lower(V ? 0 : -10))->addConstraint(excludes(V ? "y" : "x"));
   h.addArgument("j,jot", DEST_VAR(i2), "second int")->addCheck(upper(V ? 1000 : 500));
   h.addArgument("s,string", DEST_VAR(s1), "a string")->addCheck(values(V ? "alpha,beta" : "gamma,delta,eps"))->addConstraint(requiresArg(V ? "i" : "j"));
   h.addArgument("o,opt", DEST_VAR(o), "optional");
   h.addArgument("t,tuple", DEST_VAR(t), "tuple")->setListSep(V ? '-' : '.');
   h.addArgument("b,bits", DEST_VAR(b), "bitset")->setListSep(V ? ';' : ',');
   h.addArgument("k,kv", DEST_VAR(kv), "key value pairs");
   h.addArgument("v", DEST_VAR(lc), "verbosity");
   h.addArgument("f", DEST_VAR(f1), "flag f"); h.addArgument("g", DEST_VAR(f2), "flag g");
   h.addArgument("x", DEST_VAR(d), "a double")->addCheck(range(0.5, V ? 9.5 : 4.5)); h.addArgument("y", DEST_VAR(subf), "flag y")->setIsHidden();
   h.addArgument("-", DEST_VAR(pos), "positional")->addCheck(minLength(V ? 2 : 3))->addCheck(pattern(V ? "^[a-z]+$" : "^[A-Z]+$"));
   sub.addArgument("n", DEST_VAR(subv), "sub value"); h.addArgument(V ? "S,sub" : "G,grp", sub, "sub group");
   h.addConstraint(all_of(V ? "i;s" : "j;string")); h.addConstraint(one_of(V ? "f;g" : "g;f;o")); h.addConstraint(any_of(V ? "o;v" : "x;y")); h.addConstraint(differ(V ? "i;j" : "j;i"));
   std::vector<std::string> line = V ? std::vector<std::string>{"-l", "3:4:5:3", "--words", "ab+cd", "-i", "7", "-j", "9", "-s", "beta", "-t", "4-four", "-b", "1;3", "-k", "one,1;two,2", "-v", "-f", "-x", "2.5", "--sub", "-n", "11", "word", "--list-arg-vars", "--help-arg", "jot"}
                                     : std::vector<std::string>{"--members=9,8,9", "-w", "XY/Zz", "-i", "3", "--string", "eps", "-j", "400", "--tuple", "6.six", "--bits=0,7", "--kv", "a,5", "-v", "-g", "-G", "-n", "12", "WORD", "--help-arg", "members", "--list-arg-vars"};
   std::string r = eval(h, line);
   // a second handler that takes its arguments from a string
   std::ostringstream out2, err2; std::vector<int> v2; std::string s2; Handler h2(out2, err2, Handler::hfUsageCont);
   h2.addArgument("n,numbers", DEST_VAR(v2), "numbers")->setListSep(V ? '|' : ';')->setTakesMultiValue(); h2.addArgument("s", DEST_VAR(s2), "string");
   std::string r2; try { evalArgumentString(h2, V ? "-n 1|2 3 -s 'quoted text'" : "--numbers 7;8 -s \"other text\"", "prog"); r2 = "accepted"; } catch (const std::exception& e) { r2 = std::string("rejected(") + e.what() + ")"; }
   std::string kvs; for (auto& e : kv) kvs += e.first + "=" + std::to_string(e.second) + ",";
   std::string ws; for (auto& w : vs) ws += w + ",";
   return std::string(V ? "K1 " : "K0 ") + r + " " + vec_text(vi) + " w=" + ws + " i=" + std::to_string(i1) + " j=" + std::to_string(i2) + " s=" + s1 + " t=" + std::to_string(std::get<0>(t)) + "/" + std::get<1>(t) + " b=" + b.to_string() + " kv={" + kvs + "} v=" + std::to_string(lc.value()) +
          " f=" + std::to_string(f1) + std::to_string(f2) + " sub=" + std::to_string(subv) + " pos=" + pos + " out#" + std::to_string(vf::fnv(out.str()) % 1000000) + "/" + std::to_string(out.str().size()) + " | " + r2 + " " + vec_text(v2) + " s2=" + s2;
}
typedef std::string (*BodyFn)();
static const BodyFn bodies[] = {h1, h2, h3, h4, h5, kitchen<0>, kitchen<1>};
static const char* body_names[] = {"H1", "H2", "H3", "H4", "H5", "K0", "K1"};
enum { NBODY = 7 };
static char g_expected[NBODY][900];      // filled by the parent from the solo runs, inherited by every child
static int g_members[3], g_nmembers;
static char g_result[3][900];

static void run_member(int slot) { std::string r = bodies[g_members[slot]](); snprintf(g_result[slot], sizeof g_result[slot], "%s", r.c_str()); }
static void body_group() {
   std::thread t[3];
   for (int i = 0; i < g_nmembers; ++i) t[i] = std::thread(run_member, i);
   for (int i = 0; i < g_nmembers; ++i) t[i].join();
   for (int i = 0; i < g_nmembers; ++i) {
      xs::observe(g_result[i]);
      if (strcmp(g_result[i], g_expected[g_members[i]]) != 0) {
         char b[2000]; snprintf(b, sizeof b, "thread %d (%s) observed '%s' but alone it observes '%s'", i, body_names[g_members[i]], g_result[i], g_expected[g_members[i]]);
         char sig[100]; snprintf(sig, sizeof sig, "outcome-differs-from-solo|%s", body_names[g_members[i]]); xs::fail(sig, b);
      }
   }
}
static void body_solo() { std::string r = bodies[g_members[0]](); xs::observe(r.c_str()); }

struct Scen { int n; int m[3]; int bound_quick, bound_thorough; };
static const Scen scens[] = {
   {2, {0, 1, 0}, 3, 4}, {2, {0, 4, 0}, 3, 4}, {2, {1, 4, 0}, 3, 4}, {2, {0, 0, 0}, 3, 4}, {2, {2, 3, 0}, 2, 3}, {2, {0, 2, 0}, 2, 3}, {2, {1, 3, 0}, 2, 3}, {2, {2, 2, 0}, 2, 3}, {2, {3, 3, 0}, 2, 2}, {2, {4, 3, 0}, 2, 3},
   {3, {0, 1, 4}, 2, 3}, {3, {2, 3, 0}, 1, 2},
   {2, {5, 6, 0}, 2, 3}, {2, {5, 5, 0}, 1, 2}, {2, {6, 6, 0}, 1, 2}, {3, {5, 6, 3}, 1, 2},
};
static std::string scen_name(const Scen& s) { std::string n; for (int i = 0; i < s.n; ++i) n += (i ? "+" : "") + std::string(body_names[s.m[i]]); return n; }

#ifdef XS_FREE_RUNNING
int main(int argc, char** argv) {
   int reps = argc > 1 ? atoi(argv[1]) : 10;
   for (int k = 0; k < NBODY; ++k) {          // expected outcomes: each body alone in a fresh process
      int fd[2]; if (pipe(fd) != 0) return 3; pid_t pid = fork();
      if (pid == 0) { close(fd[0]); std::string r = bodies[k](); if (write(fd[1], r.data(), r.size()) < 0) _exit(3); _exit(0); }
      close(fd[1]); ssize_t n = read(fd[0], g_expected[k], sizeof g_expected[k] - 1); g_expected[k][n > 0 ? n : 0] = 0; close(fd[0]); int st; waitpid(pid, &st, 0);
   }
   for (auto& s : scens) { g_nmembers = s.n; for (int i = 0; i < s.n; ++i) g_members[i] = s.m[i]; xs::run_free(scen_name(s).c_str(), body_group, reps); }
   return 0;
}
#else
int main(int argc, char** argv) {
   vf::init(argc, argv);
   vf::Ctx& c = vf::ctx();
   // ---- solo runs: the expected outcome of every body (fresh process each)
   for (int k = 0; k < NBODY; ++k) {
      g_members[0] = k; g_nmembers = 1;
      xs::Options o; o.bound = 0; xs::Stats st; std::map<std::string, xs::Finding> f;
      xs::explore((std::string("solo-") + body_names[k]).c_str(), body_solo, o, st, f);
      std::string out; for (auto& oc : st.outcomes) out = oc;
      size_t p = out.find(": "); out = p == std::string::npos ? out : out.substr(p + 2); if (!out.empty() && out.back() == ';') out.pop_back();
      snprintf(g_expected[k], sizeof g_expected[k], "%s", out.c_str());
      if (c.shard == 0 || c.only >= 0) { vf::outcome("solo " + out); for (auto& kv : f) { c.next_case = 0; vf::violation("solo|" + kv.first, kv.second.detail, "scenario=solo-" + std::string(body_names[k]) + " schedule="); } }
      if (out.empty()) { fprintf(stderr, "solo run of %s produced no outcome\n", body_names[k]); return 3; }
   }
   c.next_case = 0;
   if (vf::replaying()) {
      std::string r = vf::replay_case(); size_t a = r.find("scenario="), b = r.find(" schedule=");
      std::string name = r.substr(a + 9, b - a - 9), sched = r.substr(b + 10);
      for (auto& s : scens) if (name == scen_name(s)) {
         g_nmembers = s.n; for (int i = 0; i < s.n; ++i) g_members[i] = s.m[i];
         std::map<std::string, xs::Finding> f; printf("replaying scenario %s, schedule [%s]\n", name.c_str(), sched.c_str());
         xs::replay(name.c_str(), body_group, xs::parse_schedule(sched), f, true);
         c.next_case = 1; for (auto& kv : f) vf::violation(kv.first, kv.second.detail, r);
      }
      vf::finish(); return 0;
   }
   uint64_t execs = 0, points = 0, races = 0;
   for (size_t i = 0; i < sizeof scens / sizeof scens[0]; ++i) {
      const Scen& s = scens[i]; std::string name = scen_name(s);
      uint64_t idx = c.next_case++; if (c.only >= 0 && idx != uint64_t(c.only)) continue;
      if (vf::elapsed() > c.deadline) { c.capped = true; break; }
      c.prog->case_idx = idx; ++c.cases_run; vf::note("scenario " + name);
      g_nmembers = s.n; for (int k = 0; k < s.n; ++k) g_members[k] = s.m[k];
      xs::Options o; o.bound = (vf::thorough() ? s.bound_thorough : s.bound_quick) + (vf::deep() ? 1 : 0); o.shard = c.only >= 0 ? 0 : c.shard; o.nshards = c.only >= 0 ? 1 : c.nshards; o.deadline_s = c.deadline - vf::elapsed(); o.keep_going = [] { vf::heartbeat(); return true; };
      xs::Stats st; std::map<std::string, xs::Finding> f;
      xs::explore(name.c_str(), body_group, o, st, f);
      if (!st.complete) c.capped = true;
      for (auto& kv : f) vf::violation(kv.first, kv.second.detail, "scenario=" + name + " schedule=" + xs::schedule_text(kv.second.schedule));
      execs += st.executions; points += st.points; races += st.races_reported;
      for (auto& oc : st.outcomes) vf::outcome(oc);
      for (auto& sm : st.sample_schedules) vf::sample(sm);
      vf::count("schedules_" + name, st.executions); vf::setmax("max_scheduling_points_" + name, st.max_points); vf::setmax("max_watched_locations_" + name, st.watch_locations);
      for (int p = 0; p < 8; ++p) if (st.by_preemptions[p]) vf::count("schedules_with_" + std::to_string(p) + "_preemptions", st.by_preemptions[p]);
      vf::count("late_watch_additions", st.late_watch_additions); vf::count("instrumented_accesses", st.instrumented_accesses); vf::count("race_reports_foreign_objects", st.foreign_races);
      vf::count("schedules_with_switch_at_shared_location", st.executions_with_switch_between_conflicting); vf::count("hangs", st.hangs);
      vf::fact("preemption_bound_" + name, std::to_string(o.bound));
      vf::nontrivial_by_construction(st.executions_with_switch_between_conflicting);
   }
   if (c.shard == 0 && c.only < 0) xs::libtsan_crosscheck(vf::thorough() ? 60 : 8);
   vf::count("evaluations", execs); vf::count("states", execs); vf::count("transitions", points); vf::count("traces", execs); vf::count("race_reports", races);
   vf::finish();
   return 0;
}
#endif
