// C19  Buffered reading and writing preserve the byte stream for every chunking       (engine E1 xstate)
//
// ReadBuffer<N>  : transition = get(len), len in 0..N+1; the source's answer to every readData(p,max) call is an
//                  ENVIRONMENT CHOICE k in 1..max - all choice vectors are enumerated (odometer discovered on the fly).
//                  state = (mDataStart, mDataEnd); the number of bytes already consumed is dropped from the canonical
//                  form (the class never inspects byte values or absolute offsets) and replaced by the invariant
//                  "buffer[start,end) == the next end-start unread bytes", checked in every state with position-coded
//                  bytes b_i = i mod 251. Data independence is itself tested: every state that is reached at two
//                  different stream offsets is expanded from both and the successors must agree.
// WriteBuffer<N> : transitions append(len), len in 0..N+2, and flush(); state = mWritePos; the sink records every
//                  writeData() call; invariant: concatenation of the calls + buffered tail == all appended bytes.
// Objects are not copyable: a state is rebuilt by replaying its history on a fresh object.
#include "engine/common.hpp"
#include "celma/common/read_buffer.hpp"
#include "celma/common/write_buffer.hpp"
#include <deque>
#include <map>

static inline unsigned char B(size_t i) { return static_cast<unsigned char>(i % 251); }
struct ZeroRequest : std::exception { const char* what() const noexcept override { return "readData() asked for 0 bytes (would spin forever)"; } };

static uint64_t g_trans = 0, g_execs = 0, g_chunkings = 0, g_refills = 0, g_compactions = 0;

struct Op { int kind; size_t len; std::vector<unsigned> choices; };      // kind 0 get/append, 1 flush
static std::string ops_text(const std::vector<Op>& h) {
   std::string s;
   for (auto& o : h) { s += o.kind ? "flush" : "len" + std::to_string(o.len); if (!o.choices.empty()) { s += "["; for (unsigned c : o.choices) s += std::to_string(c) + "."; s += "]"; } s += " "; }
   return s;
}

// ------------------------------------------------------------------------------------------------ read side
template <size_t N> struct Source : celma::common::ReadBuffer<N, celma::common::ReadCountPolicy> {
   size_t pos = 0;                         // bytes delivered by the source so far
   std::vector<unsigned> choices, arity; size_t ci = 0;
   size_t calls = 0; bool bad_request = false; size_t bad_len = 0;
   size_t readData(unsigned char* d, size_t len) override {
      ++calls;
      if (len == 0) throw ZeroRequest();
      if (len > N) { bad_request = true; bad_len = len; len = N; }
      unsigned k;
      if (ci < choices.size()) { k = choices[ci]; if (k > len) k = unsigned(len); } else { k = 1; choices.push_back(1); }
      if (arity.size() <= ci) arity.resize(ci + 1); arity[ci] = unsigned(len);
      ++ci;
      for (unsigned i = 0; i < k; ++i) d[i] = B(pos + i);
      pos += k;
      return k;
   }
};

template <size_t N> struct ReadExplorer {
   typedef std::pair<size_t, size_t> Canon;
   struct Info { std::vector<Op> hist; size_t consumed; std::vector<Op> alt; size_t alt_consumed; bool has_alt = false; };
   std::map<Canon, Info> seen; std::deque<Canon> frontier;
   std::map<std::string, Canon> succ;      // (state, op, choices) -> successor, for the data-independence cross-check
   size_t consumed = 0;

   // replays a history on a fresh object; returns false if anything unexpected happens
   bool replay(Source<N>& s, const std::vector<Op>& h) {
      consumed = 0;
      for (auto& o : h) {
         s.choices = o.choices; s.ci = 0; s.arity.clear();
         unsigned char* buf = static_cast<unsigned char*>(malloc(o.len ? o.len : 1));
         try { s.get(buf, o.len); } catch (...) { free(buf); return false; }
         free(buf); consumed += o.len;
      }
      return true;
   }
   std::string state_invariant(Source<N>& s) {
      if (s.mDataStart > s.mDataEnd) return "mDataStart > mDataEnd";
      if (s.mDataEnd > N) return "mDataEnd " + std::to_string(s.mDataEnd) + " > N";
      if (s.pos - consumed != s.mDataEnd - s.mDataStart) return "buffered amount " + std::to_string(s.mDataEnd - s.mDataStart) + " != delivered-consumed " + std::to_string(s.pos - consumed);
      for (size_t i = s.mDataStart; i < s.mDataEnd; ++i)
         if (s.mpBuffer[i] != B(consumed + (i - s.mDataStart))) return "buffer byte " + std::to_string(i) + " is not the next unread stream byte";
      return "";
   }
   void viol(const std::string& sig, const std::string& what, const std::vector<Op>& h, const Op& o) {
      std::vector<Op> full = h; full.push_back(o);
      vf::violation("ReadBuffer<N>::" + sig, "ReadBuffer<" + std::to_string(N) + "> history: " + ops_text(full) + ": " + what, "R " + std::to_string(N) + " " + ops_text(full));
   }

   void run(bool verbose) {
      Canon init(0, 0); seen[init] = Info{{}, 0, {}, 0, false}; frontier.push_back(init);
      size_t states = 0;
      while (!frontier.empty()) {
         Canon st = frontier.front(); frontier.pop_front(); ++states;
         for (int pass = 0; pass < 2; ++pass) {
            Info info = seen[st];
            if (pass == 1 && !info.has_alt) break;
            const std::vector<Op>& hist = pass ? info.alt : info.hist;
            for (size_t len = 0; len <= N + 1; ++len) {
               chunk_loop(hist, len, verbose, st, pass);
            }
         }
      }
      vf::count("states", states);
      vf::sample("ReadBuffer<" + std::to_string(N) + ">: " + std::to_string(states) + " states (start,end); e.g. history to the last state: " + ops_text(seen.rbegin()->second.hist));
      for (auto& kv : seen) vf::nontrivial("R" + std::to_string(N) + ":" + std::to_string(kv.first.first) + "," + std::to_string(kv.first.second));
   }
   void chunk_loop(const std::vector<Op>& hist, size_t len, bool verbose, Canon st, int pass) {
      std::vector<unsigned> prefix;
      for (;;) {
         Op o; o.kind = 0; o.len = len; o.choices = prefix;
         Source<N> s; bool ok = true; Canon c(-1, -1);
         // --- execute (inline so that the arity vector of the run is available for the odometer)
         std::vector<unsigned> ar;
         c = execute_keep_arity(hist, o, ok, verbose, ar);
         ++g_trans; ++g_chunkings;
         std::string key = std::to_string(st.first) + "," + std::to_string(st.second) + "|" + ops_text({o});
         vf::outcome("ReadBuffer<" + std::to_string(N) + "> " + key + (ok && c.first != size_t(-1) ? " -> (" + std::to_string(c.first) + "," + std::to_string(c.second) + ")" : " refused"));
         if (ok && c.first != size_t(-1)) {
            if (pass == 0) {
               succ[key] = c;
               size_t cons = consumed;
               auto it = seen.find(c);
               std::vector<Op> h2 = hist; h2.push_back(o);
               if (it == seen.end()) { seen[c] = Info{h2, cons, {}, 0, false}; frontier.push_back(c); }
               else if (!it->second.has_alt && it->second.consumed != cons && h2.size() <= 12) { it->second.alt = h2; it->second.alt_consumed = cons; it->second.has_alt = true; }
            } else {
               auto it = succ.find(key); vf::count("data_independence_crosschecks");
               if (it != succ.end() && it->second != c) viol("data-independence", "the same operation from the same (start,end) at another stream offset leads to (" + std::to_string(c.first) + "," + std::to_string(c.second) + ") instead of (" + std::to_string(it->second.first) + "," + std::to_string(it->second.second) + ")", hist, o);
            }
         }
         std::vector<unsigned> ch = o.choices; size_t i = ch.size();
         while (i > 0 && ch[i - 1] >= ar[i - 1]) --i;
         if (i == 0) break;
         ch.resize(i); ++ch[i - 1]; prefix = ch;
         if (vf::deadline_hit()) break;
      }
   }
   Canon execute_keep_arity(const std::vector<Op>& hist, Op& o, bool& ok, bool verbose, std::vector<unsigned>& ar) {
      // identical to execute(), but the arities seen by the source during the LAST operation are handed back
      g_arity_out = &ar; Canon c = execute_impl(hist, o, ok, verbose); g_arity_out = nullptr; return c;
   }
   std::vector<unsigned>* g_arity_out = nullptr;
   Canon execute_impl(const std::vector<Op>& hist, Op& o, bool& ok, bool verbose) {
      ++g_execs; vf::heartbeat();
      Source<N> s; ok = true;
      if (!replay(s, hist)) { ok = false; viol("replay", "history no longer replays (hidden state?)", hist, o); if (g_arity_out) g_arity_out->clear(); return Canon(-1, -1); }
      Canon before(s.mDataStart, s.mDataEnd); size_t pos_before = s.pos, calls_before = s.calls;
      s.choices = o.choices; s.ci = 0; s.arity.clear();
      unsigned char* buf = static_cast<unsigned char*>(malloc(o.len ? o.len : 1));
      memset(buf, 0xEE, o.len ? o.len : 1);
      bool threw = false; std::string what;
      try { s.get(buf, o.len); } catch (const ZeroRequest& z) { threw = true; what = z.what(); ok = false; viol("zero-request", what, hist, o); }
      catch (const std::runtime_error& e) { threw = true; what = e.what(); } catch (...) { threw = true; ok = false; viol("exception", "unexpected exception type", hist, o); }
      o.choices = s.choices; o.choices.resize(s.ci);
      if (g_arity_out) { *g_arity_out = s.arity; g_arity_out->resize(s.ci); }
      if (verbose) printf("  ReadBuffer<%zu> get(%zu) chunks %s from (%zu,%zu) -> (%zu,%zu) %s\n", N, o.len, ops_text({o}).c_str(), before.first, before.second, s.mDataStart, s.mDataEnd, threw ? what.c_str() : "");
      if (ok && s.bad_request) { ok = false; viol("overlong-request", "readData() was asked for " + std::to_string(s.bad_len) + " bytes, more than the buffer has room for", hist, o); }
      if (ok) {
         if (o.len > N) {
            if (!threw) { ok = false; viol("oversize", "get(len > N) must be refused with an exception", hist, o); }
            else if (Canon(s.mDataStart, s.mDataEnd) != before || s.pos != pos_before) { ok = false; viol("oversize", "refused request changed the state", hist, o); }
         } else if (threw) { ok = false; viol("exception", "get(" + std::to_string(o.len) + ") threw: " + what, hist, o); }
         else {
            for (size_t i = 0; i < o.len && ok; ++i) if (buf[i] != B(consumed + i)) { ok = false; viol("bytes", "byte " + std::to_string(i) + " returned by get() is not stream byte " + std::to_string(consumed + i), hist, o); }
            if (ok) { consumed += o.len; std::string inv = state_invariant(s); if (!inv.empty()) { ok = false; viol("invariant", inv, hist, o); } }
            if (ok && s.bytesReadFromSource() != s.pos) { ok = false; viol("policy", "read policy counted " + std::to_string(s.bytesReadFromSource()) + " source bytes, source delivered " + std::to_string(s.pos), hist, o); }
         }
      }
      free(buf);
      if (s.calls > calls_before) ++g_refills;
      if (s.calls > calls_before && before.first > 0 && s.mDataStart < before.first && before.first != before.second) ++g_compactions;
      if (!ok || threw) return Canon(-1, -1);
      return Canon(s.mDataStart, s.mDataEnd);
   }
};

// ------------------------------------------------------------------------------------------------ write side
template <size_t N> struct Sink : celma::common::WriteBuffer<N, celma::common::WriteCountPolicy> {
   mutable std::vector<unsigned char> out; mutable std::vector<size_t> calls;
   void writeData(const unsigned char* const d, size_t len) const override { calls.push_back(len); out.insert(out.end(), d, d + len); }
};
template <size_t N> struct WriteExplorer {
   struct Info { std::vector<Op> hist; };
   std::map<size_t, Info> seen; std::deque<size_t> frontier;
   void viol(const std::string& sig, const std::string& what, const std::vector<Op>& h) {
      vf::violation("WriteBuffer<N>::" + sig, "WriteBuffer<" + std::to_string(N) + "> history: " + ops_text(h) + ": " + what, "W " + std::to_string(N) + " " + ops_text(h));
   }
   // runs a whole history on a fresh object, checking the invariant after every operation; returns final write position
   bool run_history(const std::vector<Op>& h, size_t& wp, bool verbose) {
      ++g_execs; vf::heartbeat();
      Sink<N> s; size_t appended = 0;
      for (size_t step = 0; step < h.size(); ++step) {
         const Op& o = h[step]; size_t calls_before = s.calls.size(), out_before = s.out.size(), buffered_before = s.mWritePos;
         if (o.kind == 1) { s.flush(); }
         else {
            unsigned char* src = static_cast<unsigned char*>(malloc(o.len ? o.len : 1));    // exact-size source block
            for (size_t i = 0; i < o.len; ++i) src[i] = B(appended + i);
            try { s.append(src, o.len); } catch (const std::exception& e) { free(src); viol("exception", std::string("append threw: ") + e.what(), h); return false; }
            free(src); appended += o.len;
         }
         if (verbose) printf("  WriteBuffer<%zu> %s -> writePos %zu, %zu writeData calls, %zu bytes at the sink\n", N, o.kind ? "flush()" : ("append(" + std::to_string(o.len) + ")").c_str(), s.mWritePos, s.calls.size(), s.out.size());
         if (s.mWritePos > N) { viol("invariant", "write position " + std::to_string(s.mWritePos) + " > N", h); return false; }
         if (s.out.size() + s.mWritePos != appended) { viol("bytes", "sink has " + std::to_string(s.out.size()) + " bytes + " + std::to_string(s.mWritePos) + " buffered, appended " + std::to_string(appended) + " (lost or duplicated data)", h); return false; }
         for (size_t i = 0; i < s.out.size(); ++i) if (s.out[i] != B(i)) { viol("bytes", "sink byte " + std::to_string(i) + " is not appended byte " + std::to_string(i) + " (order/duplication)", h); return false; }
         for (size_t i = 0; i < s.mWritePos; ++i) if (s.mpBuffer[i] != B(s.out.size() + i)) { viol("bytes", "buffered byte " + std::to_string(i) + " is not the next unsent byte", h); return false; }
         if (o.kind == 1 && s.mWritePos != 0) { viol("flush", "data still buffered after flush()", h); return false; }
         if (o.kind == 1 && s.buffered() != 0) { viol("flush", "buffered() != 0 after flush()", h); return false; }
         if (o.kind == 0 && o.len >= N && o.len > 0) {
            // oversized block: passed through after flushing what was buffered
            if (s.mWritePos != 0) { viol("passthrough", "oversized append left data in the buffer", h); return false; }
            if (s.out.size() != out_before + buffered_before + o.len) { viol("passthrough", "oversized append did not reach the sink completely", h); return false; }
         }
         if (o.kind == 0 && o.len == 0 && s.calls.size() != calls_before) { viol("empty-append", "append of 0 bytes wrote to the sink", h); return false; }
         for (size_t c = calls_before; c < s.calls.size(); ++c) if (s.calls[c] == 0) { viol("empty-write", "writeData() called with 0 bytes", h); return false; }
         if (s.bytesAppended() != appended) { viol("policy", "write policy counted " + std::to_string(s.bytesAppended()) + " appended bytes instead of " + std::to_string(appended), h); return false; }
      }
      wp = s.mWritePos; return true;
   }
   void run(bool verbose) {
      seen[0] = Info{{}}; frontier.push_back(0); size_t states = 0;
      while (!frontier.empty()) {
         size_t st = frontier.front(); frontier.pop_front(); ++states;
         std::vector<Op> base = seen[st].hist;
         for (size_t len = 0; len <= N + 3; ++len) {
            Op o; o.kind = (len == N + 3); o.len = o.kind ? 0 : len;
            std::vector<Op> h = base; h.push_back(o); size_t wp = 0; ++g_trans;
            if (!run_history(h, wp, verbose)) continue;
            // a flush right after every transition must deliver everything (no later than the next flush)
            std::vector<Op> h2 = h; Op f; f.kind = 1; f.len = 0; h2.push_back(f); size_t wp2 = 0; ++g_trans;
            run_history(h2, wp2, false);
            if (seen.find(wp) == seen.end()) { seen[wp] = Info{h}; frontier.push_back(wp); }
         }
      }
      vf::count("states", states);
      vf::sample("WriteBuffer<" + std::to_string(N) + ">: " + std::to_string(states) + " states (write position); append(0.." + std::to_string(N + 2) + ") and flush() from each");
      for (auto& kv : seen) vf::nontrivial("W" + std::to_string(N) + ":" + std::to_string(kv.first));
   }
};

template <size_t N> static void both(bool verbose, const std::string& only_kind) {
   if (only_kind.empty() || only_kind == "R") { if (only_kind.empty() ? vf::want_case() : true) { vf::note("ReadBuffer<" + std::to_string(N) + ">"); ReadExplorer<N> r; r.run(verbose); } }
   if (only_kind.empty() || only_kind == "W") { if (only_kind.empty() ? vf::want_case() : true) { vf::note("WriteBuffer<" + std::to_string(N) + ">"); WriteExplorer<N> w; w.run(verbose); } }
}

int main(int argc, char** argv) {
   vf::init(argc, argv);
   std::string kind; size_t rn = 0;
   if (vf::replaying()) { char k; if (sscanf(vf::replay_case().c_str(), "%c %zu", &k, &rn) == 2) kind = std::string(1, k); printf("replay: re-running the complete search for %sBuffer<%zu> (small), verbose\n", k == 'R' ? "Read" : "Write", rn); }
   bool v = vf::verbose() && vf::replaying();
#define CAP(n) if (!vf::replaying() || rn == n) both<n>(v, kind);
   CAP(1) CAP(2) CAP(3) CAP(4) CAP(5) CAP(6)
   if (vf::thorough()) { CAP(7) CAP(8) CAP(9) CAP(10) }
   vf::count("transitions", g_trans); vf::count("evaluations", g_execs); vf::count("traces", g_execs);
   vf::count("chunkings", g_chunkings); vf::count("refills", g_refills); vf::count("compactions", g_compactions);
   vf::finish();
   return 0;
}
