// C14  A log message reaches exactly the destinations whose filters it passes            (engine E2 xenum over filter histories)
//
// topology   : the real Logging singleton (reset per case) with log "l0" {destinations d00, d01} and log "l1" {d10}; destinations
//              are recording ILogDest objects. Filter histories are applied to l0 (log filters) and d00 (destination filters);
//              d01, l1 and d10 stay unfiltered and act as controls.
// settings   : maxLevel(l), minLevel(l), level(l) for the 6 levels; classes(S) for every non-empty subset S of the 6 classes
//              (part A: all 63, three casings; histories: 7 representative subsets)
// histories  : part A: every single setting on l0 resp. d00.  part B: every sequence of <= 2 (quick) / <= 3 (thorough) settings on
//              l0 followed by <= 1 / <= 2 settings on d00, duplicate policy {ignore, replace, exception} set at every position of the
//              sequence, log l1 created up-front or AFTER the policy was set (object creation must not change the configured policy)
// messages   : all 36 (level, class) pairs, sent to {l0}, {l1}, {l0,l1}, {l0 + an unused id bit} by id mask and to "l0", "l1" by name
// oracle     : reference = per filter object the value in effect per filter type after the history under the policy (ignore keeps
//              the first, replace the last, exception throws and keeps the first); a message is delivered to destination d of log g
//              exactly once iff g is selected and passes all filters of g and of d; never anywhere else.  Pre-check: whenever
//              processLevel(l) / discard_by_level() says "discard", no class may pass the full filters of that log at level l.
#include "engine/common.hpp"
#include "celma/log/logging.hpp"
#include "celma/log/detail/log.hpp"
#include "celma/log/detail/i_log_dest.hpp"
#include "celma/log/detail/log_msg.hpp"
#include "celma/log/detail/helper_function.hpp"
#include "celma/log/filter/filters.hpp"
#include <optional>
using namespace celma::log;
typedef celma::log::filter::detail::DuplicatePolicy DP;

static const char* class_text[7] = {"undefined", "SysCall", "Data", "Communication", "Application", "Accounting", "Operator Action"};
static const char* level_text[7] = {"undefined", "fatal", "error", "warning", "info", "debug", "fullDebug"};
static const char* type_text[4] = {"maxLevel", "minLevel", "level", "classes"};

struct Setting { int type; int level; unsigned mask; int casing; };
static std::string class_list(unsigned mask, int casing) {
   std::string s;
   for (int c = 1; c <= 6; ++c) if (mask & (1u << c)) {
      std::string t = class_text[c];
      if (casing == 1) for (auto& ch : t) ch = tolower(ch);
      if (casing == 2) for (auto& ch : t) ch = toupper(ch);
      s += (s.empty() ? "" : ",") + t;
   }
   return s;
}
static std::string set_text(const Setting& s) { return s.type < 3 ? std::string(type_text[s.type]) + "(" + level_text[s.level] + ")" : "classes(" + class_list(s.mask, s.casing) + ")"; }

struct Ref {            // value in effect per filter type
   std::optional<int> v[3]; std::optional<unsigned> cls;
   bool apply(const Setting& s, DP pol) {      // returns true if the call must throw
      bool present = s.type < 3 ? v[s.type].has_value() : cls.has_value();
      if (present) { if (pol == DP::ignore) return false; if (pol == DP::exception) return true; }
      if (s.type < 3) v[s.type] = s.level; else cls = s.mask;
      return false;
   }
   bool pass(int level, int cl) const {
      if (v[0] && !(level <= *v[0])) return false;
      if (v[1] && !(level >= *v[1])) return false;
      if (v[2] && !(level == *v[2])) return false;
      if (cls && !(*cls & (1u << cl))) return false;
      return true;
   }
};

struct RecDest final : public detail::ILogDest {
   int received[7][7] = {};
   void message(const detail::LogMsg& m) override { ++received[int(m.getLevel())][int(m.getClass())]; }
   void clear() { memset(received, 0, sizeof received); }
};

struct Step { int target; Setting s; };       // target 0 = log l0, 1 = destination d00
struct History { std::vector<Step> steps; int policy; int policy_pos; bool create_l1_after_policy; };
static const char* pol_text[3] = {"ignore", "exception", "replace"};
static std::string hist_text(const History& h) {
   std::string s;
   for (size_t i = 0; i <= h.steps.size(); ++i) {
      if (int(i) == h.policy_pos) s += std::string("policy=") + pol_text[h.policy] + (h.create_l1_after_policy ? " create(l1) " : " ");
      if (i < h.steps.size()) s += std::string(h.steps[i].target ? "d00." : "l0.") + set_text(h.steps[i].s) + " ";
   }
   return s;
}

static uint64_t g_deliveries = 0, g_histories = 0, g_throw_expected = 0, g_precheck = 0, g_dup = 0;

static void apply_real(filter::Filters& f, const Setting& s) {
   switch (s.type) {
   case 0: f.maxLevel(LogLevel(s.level)); break;
   case 1: f.minLevel(LogLevel(s.level)); break;
   case 2: f.level(LogLevel(s.level)); break;
   default: f.classes(class_list(s.mask, s.casing));
   }
}

static void run(const History& h, const std::string& family) {
   vf::note(hist_text(h)); ++g_histories; vf::heartbeat();
   Logging::reset();
   Logging& lg = Logging::instance();
   id_t id0 = lg.findCreateLog("l0"), id1 = 0, id2 = 0, id3 = 0;
   RecDest *d00 = new RecDest, *d01 = new RecDest, *d10 = new RecDest, *d20 = new RecDest, *d30 = new RecDest;
   lg.getLog(id0)->addDestination("d00", d00); lg.getLog(id0)->addDestination("d01", d01);
   // l1, then two more unfiltered logs l2, l3: messages to id sets with GAPS (l0+l2, l0+l3, l1+l3) must reach every selected log
   auto create_l1 = [&]() { id1 = lg.findCreateLog("l1"); lg.getLog(id1)->addDestination("d10", d10); id2 = lg.findCreateLog("l2"); lg.getLog(id2)->addDestination("d20", d20); id3 = lg.findCreateLog("l3"); lg.getLog(id3)->addDestination("d30", d30); };
   if (!h.create_l1_after_policy) create_l1();
   filter::Filters::setDuplicatePolicy(DP::ignore);
   Ref rl, rd; DP pol = DP::ignore; bool bad = false;
   std::string sigbase = family + "|" + pol_text[h.policy];
   for (size_t i = 0; i <= h.steps.size() && !bad; ++i) {
      if (int(i) == h.policy_pos) { filter::Filters::setDuplicatePolicy(DP(h.policy)); pol = DP(h.policy); if (h.create_l1_after_policy) create_l1(); }
      if (i == h.steps.size()) break;
      const Step& st = h.steps[i];
      Ref& r = st.target ? rd : rl; bool present = st.s.type < 3 ? r.v[st.s.type].has_value() : r.cls.has_value(); if (present) ++g_dup;
      bool must_throw = r.apply(st.s, pol), threw = false; std::string what;
      try { if (st.target) apply_real(*d00, st.s); else apply_real(*lg.getLog(id0), st.s); } catch (const std::exception& e) { threw = true; what = e.what(); }
      if (must_throw) ++g_throw_expected;
      if (threw != must_throw) {
         std::string k = threw ? (present ? "duplicate-setting-throws" : "setting-throws") : "duplicate-setting-does-not-throw";
         vf::violation(k + "|" + sigbase + "|" + type_text[st.s.type] + (h.create_l1_after_policy && present ? "|object-created-after-policy" : "") + (threw && !present && st.s.type == 3 && (st.s.mask & (1u << 6)) ? "|last-class" : ""),
                       "step " + std::to_string(i) + " (" + set_text(st.s) + ") " + (threw ? "throws: " + what : "does not throw although the policy is 'exception' and the filter type is already set") + "\n  history: " + hist_text(h), hist_text(h));
         bad = true;
      }
   }
   if (h.policy_pos > int(h.steps.size()) && h.create_l1_after_policy) create_l1();
   if (id1 == 0) create_l1();
   if (!bad) {
      // ---- messages
      struct Target { id_t mask; const char* name; bool l0, l1, l2, l3; };
      const Target targets[] = {{id0, nullptr, true, false, false, false}, {id1, nullptr, false, true, false, false}, {id0 | id1, nullptr, true, true, false, false}, {id0 | (id3 << 3), nullptr, true, false, false, false},
                                {id0 | id2, nullptr, true, false, true, false}, {id0 | id3, nullptr, true, false, false, true}, {id1 | id3, nullptr, false, true, false, true}, {id0 | id1 | id3, nullptr, true, true, false, true}, {id3, nullptr, false, false, false, true},
                                {0, "l0", true, false, false, false}, {0, "l1", false, true, false, false}, {0, "l3", false, false, false, true}, {0, "nolog", false, false, false, false}};
      for (auto& t : targets) {
         d00->clear(); d01->clear(); d10->clear(); d20->clear(); d30->clear();
         for (int l = 1; l <= 6; ++l) for (int c = 1; c <= 6; ++c) {
            detail::LogMsg m("f.cpp", "fn", 1); m.setLevel(LogLevel(l)); m.setClass(LogClass(c)); m.setText("t"); m.setTimestamp(1);
            if (t.name) lg.log(std::string(t.name), m); else lg.log(t.mask, m);
            ++g_deliveries;
         }
         for (int l = 1; l <= 6; ++l) for (int c = 1; c <= 6; ++c) {
            int e00 = t.l0 && rl.pass(l, c) && rd.pass(l, c), e01 = t.l0 && rl.pass(l, c), e10 = t.l1, e20 = t.l2, e30 = t.l3;
            int g00 = d00->received[l][c], g01 = d01->received[l][c], g10 = d10->received[l][c], g20 = d20->received[l][c], g30 = d30->received[l][c];
            if (g00 != e00 || g01 != e01 || g10 != e10 || g20 != e20 || g30 != e30) {
               std::string which = g00 != e00 ? "filtered-destination" : g01 != e01 ? "sibling-destination" : "other-log";
               int got = g00 != e00 ? g00 : g01 != e01 ? g01 : g10 != e10 ? g10 : g20 != e20 ? g20 : g30, exp = g00 != e00 ? e00 : g01 != e01 ? e01 : g10 != e10 ? e10 : g20 != e20 ? e20 : e30;
               // which filter type decides?
               // the filter type that decides this message: the first one (log filters first) whose value in effect rejects/accepts differently is not known; name the types on the object that misbehaves
               std::string ft; for (auto& st : h.steps) if ((which == "filtered-destination") || st.target == 0) { std::string n = type_text[st.s.type]; if (ft.find(n) == std::string::npos) ft += (ft.empty() ? "" : "+") + n; }

               vf::violation(std::string(got > exp ? (got > 1 ? "delivered-twice" : "delivered-but-filtered") : "not-delivered") + "|" + which + "|" + sigbase + "|" + ft,
                             std::string("message (") + level_text[l] + ", " + class_text[c] + ") sent to " + (t.name ? std::string("log '") + t.name + "'" : "id mask " + std::to_string(t.mask)) + ": " + which + " received it " + std::to_string(got) + " times, expected " + std::to_string(exp) +
                             "\n  history: " + hist_text(h), hist_text(h));
               bad = true; break;
            }
         }
         if (bad) break;
      }
      // ---- pre-check
      for (int l = 1; l <= 6 && !bad; ++l) {
         bool any = false; for (int c = 1; c <= 6; ++c) any = any || rl.pass(l, c);
         bool proc = lg.getLog(id0)->processLevel(LogLevel(l)), disc_id = detail::discard_by_level(id0, LogLevel(l)), disc_name = detail::discard_by_level(std::string("l0"), LogLevel(l));
         ++g_precheck;
         if ((!proc || disc_id || disc_name) && any) {
            vf::violation("precheck-discards-passing-level|" + sigbase, std::string("level ") + level_text[l] + ": processLevel=" + (proc ? "true" : "false") + " discard_by_level(id)=" + (disc_id ? "true" : "false") + " (name)=" + (disc_name ? "true" : "false") + " but the full filters of l0 let a message of this level through\n  history: " + hist_text(h), hist_text(h));
            bad = true;
         }
         if (disc_id != !proc || disc_name != !proc) { vf::violation("precheck-inconsistent|" + sigbase, "discard_by_level and processLevel disagree\n  history: " + hist_text(h), hist_text(h)); bad = true; }
      }
      if (!bad && !detail::discard_by_level(std::string("nolog"), LogLevel::info)) vf::violation("precheck-unknown-log|" + sigbase, "discard_by_level for an unknown log name does not discard", hist_text(h));
   }
   std::string o = std::string(pol_text[h.policy]) + " steps=" + std::to_string(h.steps.size()); vf::outcome(o);
   Logging::reset();
}

static History parse_history(const std::string& text) {
   History h; h.policy = 0; h.policy_pos = 0; h.create_l1_after_policy = false;
   std::istringstream is(text); std::string w; std::vector<std::string> toks;
   // tokens may contain blanks ("Operator Action"): re-join until the closing parenthesis
   while (is >> w) { if (!toks.empty() && toks.back().find('(') != std::string::npos && toks.back().find(')') == std::string::npos) toks.back() += " " + w; else toks.push_back(w); }
   for (auto& t : toks) {
      if (t.compare(0, 7, "policy=") == 0) { for (int p = 0; p < 3; ++p) if (t.substr(7) == pol_text[p]) h.policy = p; h.policy_pos = int(h.steps.size()); continue; }
      if (t == "create(l1)") { h.create_l1_after_policy = true; continue; }
      Step st; st.target = t.compare(0, 4, "d00.") == 0; std::string body = t.substr(t.find('.') + 1); std::string name = body.substr(0, body.find('(')), arg = body.substr(body.find('(') + 1); arg.pop_back();
      st.s = Setting{0, 0, 0, 0};
      for (int k = 0; k < 4; ++k) if (name == type_text[k]) st.s.type = k;
      if (st.s.type < 3) { for (int l = 1; l <= 6; ++l) if (arg == level_text[l]) st.s.level = l; }
      else { size_t p = 0; while (p <= arg.size()) { size_t q = arg.find(',', p); if (q == std::string::npos) q = arg.size(); std::string c = arg.substr(p, q - p); for (int k = 1; k <= 6; ++k) if (strcasecmp(c.c_str(), class_text[k]) == 0) st.s.mask |= 1u << k; if (!c.empty()) st.s.casing = islower(c[0]) ? 1 : (c.size() > 1 && isupper(c[1]) ? 2 : 0); p = q + 1; } }
      h.steps.push_back(st);
   }
   return h;
}

int main(int argc, char** argv) {
   vf::init(argc, argv);
   if (vf::replaying()) { History h = parse_history(vf::replay_case()); vf::ctx().next_case = 1; printf("replaying: %s\n", hist_text(h).c_str()); run(h, "replay"); vf::finish(); return 0; }
   const bool th = vf::thorough();
   // ---- part A: single settings, complete
   std::vector<Setting> all;
   for (int t = 0; t < 3; ++t) for (int l = 1; l <= 6; ++l) all.push_back({t, l, 0, 0});
   for (unsigned m = 2; m < 128; m += 2) for (int cs = 0; cs < 3; ++cs) all.push_back({3, 0, m, cs});
   for (auto& s : all) for (int target = 0; target < 2; ++target) {
      if (!vf::want_case()) continue;
      History h; h.steps = {{target, s}}; h.policy = 0; h.policy_pos = 0; h.create_l1_after_policy = false;
      run(h, "single"); vf::nontrivial_by_construction();
      if (vf::current_case() % 41 == 0) vf::sample(hist_text(h) + " x 36 messages x 13 ways of addressing the logs");
   }
   // ---- part B: histories
   std::vector<Setting> pool;
   for (int t = 0; t < 3; ++t) for (int l = 1; l <= 6; ++l) pool.push_back({t, l, 0, 0});
   for (unsigned m : {1u << 2, 1u << 6, (1u << 1) | (1u << 4), 126u, (1u << 5) | (1u << 6), 1u << 3, (1u << 2) | (1u << 3) | (1u << 4)}) pool.push_back({3, 0, m, int(m % 3)});
   const int maxlog = 3, maxdest = th ? 2 : 1, maxtotal = vf::deep() ? 5 : th ? 4 : 3;
   // thorough depth 3: the third log setting is restricted to the types already present (that is where duplicates happen) + one fresh type
   for (int nl = 0; nl <= maxlog; ++nl) for (int nd = 0; nd <= maxdest; ++nd) {
      if (nl + nd < 2 || nl + nd > maxtotal) continue;       // single settings are part A; at most 4 settings per history
      std::vector<unsigned> radix(nl + nd, unsigned(pool.size()));
      vf::Odometer od(radix);
      while (od.next()) {
         if (!vf::want_case()) continue;
         History h; for (int i = 0; i < nl + nd; ++i) h.steps.push_back({i >= nl, pool[od[i]]});
         if (nl + nd >= 4) {      // thin: at least one duplicate filter type somewhere, otherwise the policy is irrelevant and shorter histories cover it
            bool dup = false; for (int i = 0; i < nl + nd && !dup; ++i) for (int j = 0; j < i; ++j) if (h.steps[i].target == h.steps[j].target && h.steps[i].s.type == h.steps[j].s.type) dup = true;
            if (!dup) continue;
         }
         for (int pol = 0; pol < 3; ++pol) for (int pos = 0; pos <= nl + nd; ++pos) for (int cr = 0; cr < 2; ++cr) {
            if (pol == 0 && (pos > 0)) continue;          // 'ignore' is the initial policy: its position does not matter
            h.policy = pol; h.policy_pos = pos; h.create_l1_after_policy = cr;
            run(h, "history");
         }
         vf::nontrivial_by_construction();
         if (vf::current_case() % 4999 == 0) vf::sample(hist_text(h) + " (+ every policy / policy position / creation order) x 36 messages x 13 ways of addressing the logs");
         if (vf::deadline_hit()) break;
      }
   }
   // ---- part C: four (thorough: five) LEVEL settings on the log: alternating filter types revisit a type after another one was touched
   {
      std::vector<Setting> lv; for (int t = 0; t < 3; ++t) for (int l : {2, 3, 4, 5}) lv.push_back({t, l, 0, 0});
      for (int n = 4; n <= (th ? 5 : 4); ++n) {
         vf::Odometer od(std::vector<unsigned>(n, unsigned(lv.size())));
         while (od.next()) {
            if (!vf::want_case()) continue;
            // at least one type set twice with another type in between (A .. B .. A): everything else is covered by the shorter histories
            bool aba = false; for (int i = 0; i < n && !aba; ++i) for (int j = i + 2; j < n && !aba; ++j) if (lv[od[i]].type == lv[od[j]].type) for (int k = i + 1; k < j; ++k) if (lv[od[k]].type != lv[od[i]].type) aba = true;
            if (!aba) continue;
            History h; for (int i = 0; i < n; ++i) h.steps.push_back({0, lv[od[i]]});
            for (int pol = 0; pol < 3; ++pol) { h.policy = pol; h.policy_pos = 0; h.create_l1_after_policy = false; run(h, "levels"); }
            vf::nontrivial_by_construction();
            if (vf::deadline_hit()) break;
         }
      }
   }
   vf::count("evaluations", g_histories); vf::count("states", g_histories); vf::count("transitions", g_deliveries);
   vf::count("message_deliveries", g_deliveries); vf::count("duplicate_settings", g_dup); vf::count("settings_expected_to_throw", g_throw_expected); vf::count("precheck_queries", g_precheck);
   vf::finish();
   return 0;
}
