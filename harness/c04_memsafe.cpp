// C04  Argument evaluation is memory-safe for every argument vector and source            (engine E2 xenum, ASan/UBSan oracle)
//
// handler template : every destination kind (flag, int, string, optional, vector, tuple, int[2], bitset, vector<bool>,
//                    map (key-value), level counter, callable with and without value, positional, sub-group, command
//                    mode) + bracket handlers + '!' inversion + help arguments (with "continue after usage")
// argument vectors : (a) RAW   : every string of length <= 3 over {- = ( ) ! , a v x 1} as word; lines of <= 2 such words
//                                (thorough: + lines of 3 words of length <= 2)
//                    (b) TOKENS: ~40 tokens derived from the template (every key in every spelling incl. "--key=", "--=v",
//                                "--", "-", glued/grouped forms, values, empty word); lines of <= 3 (quick) / <= 4 (thorough)
//                    (c) PROGRAM NAMES: every string of length <= 3 over {a / .} and lengths 15,16,17,23,24,255,256
//                    (d) LONG LISTS: 0..24 values into vector / int[16] / std::array<int,16> / 12-tuple destinations that
//                                have a formatter for value position 0, 1 or 2 (formatter table boundary)
// sources / flags  : plain; program-argument file (absent / present with the same line); environment variable (unset,
//                    empty, set to the line); argument-file argument; Groups::evalArguments on the same line
// oracle           : AddressSanitizer + UBSan + libstdc++ assertions report nothing (abort => the supervisor attributes the
//                    case); the outcome is a normal return or an exception derived from std::exception; exit() is
//                    interposed (unexpected exit = violation); hang = violation (supervisor watchdog).
#include "harness/args.hpp"
#include "celma/prog_args/level_counter.hpp"
#include <sys/stat.h>
#include <fstream>
#include <map>
#include <bitset>
#include <tuple>
#include <array>
using namespace celma::prog_args;

extern "C" void exit(int code) { fprintf(stderr, "UNEXPECTED-EXIT code %d\n", code); fflush(stderr); abort(); }

static uint64_t g_evals = 0, g_returned = 0, g_threw = 0;
static std::string g_home;
static std::set<std::string> g_exc_types;

struct Dest {
   bool a = false, b = false; int v = 0; std::string s; std::optional<int> o; std::vector<int> l; std::tuple<int, std::string> t{0, ""}; int arr[2] = {0, 0};
   std::bitset<4> bits; std::vector<bool> vb; celma::container::DynamicBitset dyn{4}; std::map<std::string, int> kv; LevelCounter lvl; std::string pos, cmd; bool x = false; int y = 0; int calls = 0;
};
static void define(Handler& h, Handler& sub, Dest& d) {
   h.addArgument("a", DEST_VAR(d.a), "flag a");
   h.addArgument("b,bee", DEST_VAR(d.b), "flag b")->setCardinality(nullptr);
   h.addArgument("v,value", DEST_VAR(d.v), "int")->setCardinality(nullptr);
   h.addArgument("s,str", DEST_VAR(d.s), "string")->setCardinality(nullptr);
   h.addArgument("o,opt", DEST_VAR(d.o), "optional")->setCardinality(nullptr);
   h.addArgument("l,list", DEST_VAR(d.l), "vector")->setTakesMultiValue();
   h.addArgument("t,tuple", DEST_VAR(d.t), "tuple");
   h.addArgument("r,arr", DEST_VAR(d.arr), "array");
   h.addArgument("B,bits", DEST_VAR(d.bits), "bitset");
   h.addArgument("V,vb", DEST_VAR(d.vb), "vector<bool>");
   h.addArgument("D,dyn", DEST_VAR(d.dyn), "DynamicBitset");
   h.addArgument("k,kv", DEST_VAR(d.kv), "map");
   h.addArgument("L,level", DEST_VAR(d.lvl), "level counter");
   h.addArgument("c", destination(std::function<void(bool)>([&d](bool) { ++d.calls; }), "callable"), "callable")->setCardinality(nullptr);
   h.addArgument("C,callv", destination(std::function<void(const std::string&, bool)>([&d](const std::string&, bool) { ++d.calls; }), "callable-value", true), "callable with value")->setCardinality(nullptr);
   h.addArgument("-", DEST_VAR(d.pos), "positional")->setCardinality(nullptr);
   h.addArgument("cmd", DEST_VAR(d.cmd), "command")->setValueMode(Handler::ValueMode::command);
   sub.addArgument("x", DEST_VAR(d.x), "sub flag")->setCardinality(nullptr);
   sub.addArgument("y,why", DEST_VAR(d.y), "sub int")->setCardinality(nullptr);
   h.addArgument("g,group", sub, "sub group");
   h.addBracketHandler([]() {}, []() {});
   h.addArgumentFile("arg-file");
}

enum Mode { PLAIN, PROGARG_ABSENT, PROGARG_PRESENT, ENV_UNSET, ENV_EMPTY, ENV_SET, ARGFILE, GROUPS, NMODES };
static const char* mode_name[] = {"plain", "progarg-file-absent", "progarg-file-present", "env-unset", "env-empty", "env-set", "arg-file", "groups"};

static std::string join(const std::vector<std::string>& w) { std::string l; for (size_t i = 0; i < w.size(); ++i) l += (i ? " " : "") + w[i]; return l; }

static void eval_line(int mode, const std::vector<std::string>& words, const std::string& prog, const std::string& family) {
   vf::note(std::string(mode_name[mode]) + " [" + family + "] prog='" + vf::vis(prog.substr(0, 20)) + "' " + hc::words_text(words));
   std::string pa = g_home + "/.progargs/" + (prog.empty() ? "prog" : prog.substr(prog.rfind('/') == std::string::npos ? 0 : prog.rfind('/') + 1)) + ".pa";
   std::string af = g_home + "/line.args";
   int flags = Handler::hfHelpShort | Handler::hfHelpLong | Handler::hfHelpArg | Handler::hfUsageCont | Handler::hfListArgVar | Handler::hfEndValues;
   std::vector<std::string> argv_words = words;
   unsetenv("PROG"); unsetenv("A");
   if (mode == PROGARG_ABSENT || mode == PROGARG_PRESENT) flags |= Handler::hfReadProgArg;
   if (mode == PROGARG_PRESENT && pa.size() < 200) { std::ofstream f(pa); f << "# generated\n" << join(words) << "\n"; argv_words.clear(); }
   if (mode == ENV_UNSET || mode == ENV_EMPTY || mode == ENV_SET) flags |= Handler::hfEnvVarArgs;
   if (mode == ENV_EMPTY) { setenv("PROG", "", 1); setenv("A", "", 1); }
   if (mode == ENV_SET) { setenv("PROG", join(words).c_str(), 1); setenv("A", join(words).c_str(), 1); argv_words.clear(); }
   if (mode == ARGFILE) { std::ofstream f(af); f << join(words) << "\n"; argv_words = {"--arg-file", af}; }
   int outcome = 0; std::string what;
   {
      Dest d; std::ostringstream out, err; hc::Argv av(argv_words, prog);
      try {
         if (mode == GROUPS) {
            Groups::reset(); Groups& g = Groups::instance(out, err, Handler::hfUsageCont);
            auto h1 = g.getArgHandler("one"); auto h2 = g.getArgHandler("two");
            h1->addArgument("a", DEST_VAR(d.a), "flag a"); h1->addArgument("v,value", DEST_VAR(d.v), "int")->setCardinality(nullptr); h1->addArgument("l,list", DEST_VAR(d.l), "vector")->setTakesMultiValue();
            h2->addArgument("b,bee", DEST_VAR(d.b), "flag b")->setCardinality(nullptr); h2->addArgument("s,str", DEST_VAR(d.s), "string")->setCardinality(nullptr); h2->addArgument("-", DEST_VAR(d.pos), "positional")->setCardinality(nullptr);
            g.evalArguments(av.argc(), av.argv());
         } else {
            Handler h(out, err, flags); Handler sub(h, 0);
            define(h, sub, d);
            h.evalArguments(av.argc(), av.argv());
         }
      } catch (const std::exception& e) { outcome = 1; what = e.what(); if (g_exc_types.size() < 30) g_exc_types.insert(typeid(e).name()); }
      catch (...) { outcome = 2; }
      if (mode == GROUPS) Groups::reset();
   }
   ++g_evals; vf::heartbeat();
   if (outcome == 0) ++g_returned; else ++g_threw;
   if (vf::verbose()) printf("  %s prog='%s' %s -> %s %s\n", mode_name[mode], vf::vis(prog.substr(0, 30)).c_str(), hc::words_text(words).c_str(), outcome == 0 ? "returns" : outcome == 1 ? "std::exception" : "OTHER EXCEPTION", what.c_str());
   if (outcome == 2) vf::violation(std::string("non-std-exception|") + mode_name[mode] + "|" + family, std::string(mode_name[mode]) + " line " + hc::words_text(words) + ": an exception that is not derived from std::exception escaped", std::to_string(vf::current_case()));
   if (mode == PROGARG_PRESENT) unlink(pa.c_str());
}


// ---- (d) long value lists for destinations that pass a running value position to their formatters
// destination kinds vector<int>, int[16], std::array<int,16>, 12-tuple; one formatter for position k (0..2), none, or a general one;
// n = 0..24 values, written as one list and (vector, multi-value) as separate words. The formatter table is sized from k, so the
// interesting value positions lie around k + 10.
typedef std::tuple<int, int, int, int, int, int, int, int, int, int, int, int> Tuple12;
static void eval_long_list(int kind, int fmtpos, int n, bool separate) {
   static const char* kname[] = {"vector<int>", "int[16]", "array<int,16>", "tuple<12 x int>"};
   std::vector<std::string> words{"-l"};
   if (separate) { for (int i = 0; i < n; ++i) words.push_back(std::to_string(i % 10)); }
   else { std::string l; for (int i = 0; i < n; ++i) l += (i ? "," : "") + std::to_string(i % 10); words.push_back(l); }
   vf::note(std::string("[longlist] ") + kname[kind] + " format position " + std::to_string(fmtpos) + " " + hc::words_text(words));
   int outcome = 0; std::string what;
   {
      std::vector<int> vec; int carr[16] = {0}; std::array<int, 16> sarr{}; Tuple12 tup{};
      std::ostringstream out, err; hc::Argv av(words, "prog");
      try {
         Handler h(out, err, 0); celma::prog_args::detail::TypedArgBase* t = nullptr;
         switch (kind) { case 0: t = h.addArgument("l", DEST_VAR(vec), "vector"); t->setTakesMultiValue(); break; case 1: t = h.addArgument("l", DEST_VAR(carr), "C array"); break;
                         case 2: t = h.addArgument("l", DEST_VAR(sarr), "std::array"); break; default: t = h.addArgument("l", DEST_VAR(tup), "tuple"); }
         if (fmtpos >= 0) t->addFormatPos(fmtpos, uppercase()); else if (fmtpos == -1) t->addFormat(uppercase());
         h.evalArguments(av.argc(), av.argv());
      } catch (const std::exception& e) { outcome = 1; what = e.what(); if (g_exc_types.size() < 30) g_exc_types.insert(typeid(e).name()); }
      catch (...) { outcome = 2; }
   }
   ++g_evals; vf::heartbeat(); if (outcome == 0) ++g_returned; else ++g_threw;
   if (vf::verbose()) printf("  longlist %s fmtpos=%d %s -> %s %s\n", kname[kind], fmtpos, hc::words_text(words).c_str(), outcome == 0 ? "returns" : outcome == 1 ? "std::exception" : "OTHER EXCEPTION", what.c_str());
   if (outcome == 2) vf::violation(std::string("non-std-exception|longlist|") + kname[kind], std::string(kname[kind]) + " line " + hc::words_text(words) + ": an exception that is not derived from std::exception escaped", std::to_string(vf::current_case()));
}

static void all_modes(const std::vector<std::string>& words, const std::string& family) { for (int m = 0; m < NMODES; ++m) eval_line(m, words, "prog", family); }

int main(int argc, char** argv) {
   vf::init(argc, argv);
   char cwd[4096]; if (!getcwd(cwd, sizeof cwd)) return 3;
   g_home = std::string(cwd) + "/home"; mkdir(g_home.c_str(), 0755); mkdir((g_home + "/.progargs").c_str(), 0755); setenv("HOME", g_home.c_str(), 1);
   if (vf::replaying()) { vf::ctx().only = strtoll(vf::replay_case().c_str(), nullptr, 10); vf::ctx().have_replay = false; }
   const bool th = vf::thorough();
   // ---- (a) raw words
   const char ra[] = {'-', '=', '(', ')', '!', ',', 'a', 'v', 'x', '1'};
   std::vector<std::string> raw1, raw2, raw3;
   for (char c0 : ra) { raw1.push_back(std::string(1, c0)); for (char c1 : ra) { raw2.push_back(std::string{c0, c1}); for (char c2 : ra) raw3.push_back(std::string{c0, c1, c2}); } }
   std::vector<std::string> raw12_basic = raw1; raw12_basic.insert(raw12_basic.end(), raw2.begin(), raw2.end());       // 110 words over the 10 basic characters (lines of 3 words)
   // words of 1 and 2 characters additionally over a blank and a byte >= 0x80 ("any bytes")
   { const char extra[] = {' ', char(0xff)}; std::vector<char> all(ra, ra + sizeof ra); all.insert(all.end(), extra, extra + 2);
     for (char e : extra) { raw1.push_back(std::string(1, e)); for (char c : all) { raw2.push_back(std::string{e, c}); if (c != ' ' && c != char(0xff)) raw2.push_back(std::string{c, e}); } } }
   std::vector<std::string> raw12 = raw1; raw12.insert(raw12.end(), raw2.begin(), raw2.end());
   std::vector<std::string> raw123 = raw12; raw123.insert(raw123.end(), raw3.begin(), raw3.end());
   for (auto& w0 : raw123) {        // case = first word; lines [w0] and [w0, w1] for all w1
      if (!vf::want_case()) continue;
      all_modes({w0}, "raw");
      for (auto& w1 : (th ? raw123 : raw12)) all_modes({w0, w1}, "raw");
      vf::nontrivial_by_construction();
      if (vf::deadline_hit()) break;
   }
   if (th) for (auto& w0 : raw12_basic) { if (!vf::want_case()) continue; for (auto& w1 : raw12_basic) for (auto& w2 : raw12_basic) all_modes({w0, w1, w2}, "raw3"); vf::nontrivial_by_construction(); if (vf::deadline_hit()) break; }
   // ---- (b) tokens
   const std::vector<std::string> tok = {"-a", "-b", "-ab", "-ba", "--bee", "-v", "-v5", "--value", "--value=5", "--value=", "--val", "--=v", "--", "-", "", "5", "x", "-5", "1,2", "1,,2", "3,-1", ",", "-l", "--list=1,2", "-l1", "-t", "1,x", "-r", "-B", "9",
                                         "-V", "12", "-D", "-k", "a,1", "-L", "-LL", "-c", "-C", "-g", "-x", "-y", "(", ")", "!", "--cmd", "-h", "--help", "--help-arg=v", "--help-arg", "--list-arg-vars", "--endvalues", "--arg-file", "-s", "--str=-s", "-abv", "-abv5", "-ab-v", "-ab--value=5", "-a=b", "-o"};
   vf::fact("tokens", std::to_string(tok.size()));
   const int maxtok = th ? 4 : 3;
   for (size_t i0 = 0; i0 < tok.size(); ++i0) for (size_t i1 = 0; i1 < tok.size(); ++i1) {      // case = first two tokens
      if (!vf::want_case()) continue;
      all_modes({tok[i0]}, "tokens"); all_modes({tok[i0], tok[i1]}, "tokens");
      for (size_t i2 = 0; i2 < tok.size(); ++i2) { all_modes({tok[i0], tok[i1], tok[i2]}, "tokens"); if (maxtok >= 4) for (size_t i3 = 0; i3 < tok.size(); i3 += 1) eval_line(PLAIN, {tok[i0], tok[i1], tok[i2], tok[i3]}, "prog", "tokens4"); }
      vf::nontrivial_by_construction();
      if ((i1 % 16) == 0) vf::sample("tokens: lines starting with '" + tok[i0] + "' '" + tok[i1] + "' x every third token, in 8 source modes");
      if (vf::deadline_hit()) break;
   }
   // ---- (c) program names
   std::vector<std::string> names{""}; const char na[] = {'a', '/', '.'};       // argv[0] == "" is legal
   for (char c0 : na) { names.push_back(std::string(1, c0)); for (char c1 : na) { names.push_back(std::string{c0, c1}); for (char c2 : na) names.push_back(std::string{c0, c1, c2}); } }
   for (size_t n : {size_t(7), size_t(8), size_t(15), size_t(16), size_t(17), size_t(23), size_t(24), size_t(25), size_t(255), size_t(256)}) { names.push_back(std::string(n, 'p')); names.push_back("/" + std::string(n - 1, 'q')); names.push_back(std::string(n - 2, 'd') + "/p"); }
   for (auto& nm : names) {
      if (!vf::want_case()) continue;
      for (int m = 0; m < NMODES; ++m) { eval_line(m, {}, nm, "progname"); eval_line(m, {"-a"}, nm, "progname"); eval_line(m, {"-v", "5", "x"}, nm, "progname"); }
      vf::nontrivial_by_construction();
   }
   // ---- (d) long value lists (see eval_long_list)
   for (int kind = 0; kind < 4; ++kind) for (int fmtpos = -2; fmtpos <= 2; ++fmtpos) {       // -2: no formatter, -1: general formatter
      if (!vf::want_case()) continue;
      for (int n = 0; n <= 24; ++n) { eval_long_list(kind, fmtpos, n, false); if (kind == 0 && n > 0) eval_long_list(kind, fmtpos, n, true); }
      vf::nontrivial_by_construction();
   }
   vf::sample("long lists: -l 0,1,2,..,(n-1) for n = 0..24 into vector / int[16] / array<int,16> / 12-tuple with a formatter for position 0, 1 or 2");
   vf::sample("program names: '" + names[6] + "', '" + names[21] + "', 255 x 'p' ... with empty line, '-a', '-v 5 x' in 8 source modes");
   vf::count("evaluations", g_evals); vf::count("transitions", g_evals); vf::count("states", g_evals);
   vf::count("returned_normally", g_returned); vf::count("threw_std_exception", g_threw);
   for (auto& t : g_exc_types) vf::outcome("exception type " + t);
   vf::outcome("normal return");
   vf::finish();
   return 0;
}
