// Shared machinery of the argument-handler checks (C01, C02, C03, C05, C07, C08):
//   * hcfg   : a CONFIGURATION is a runtime value (argument specs, checks, cardinalities, constraints, handler flags);
//              build() turns it into a real celma::prog_args::Handler with real destination variables
//   * model  : the ABSTRACT EVALUATOR (DESIGN.md appendix A): knows rules and values, nothing about dashes or words
//   * speller: turns an abstract line (sequence of uses) into every documented surface form (argv word lists)
#pragma once
#include "engine/common.hpp"
#include "celma/prog_args.hpp"
#include "celma/prog_args/groups.hpp"
#include <optional>
#include <sstream>
#include <cmath>
#include <climits>
#include <cfloat>
#include <regex>

namespace hc {

enum Kind { FLAG, INT, DBL, STR, OPTINT, VECINT, VECSTR };
static const char* kind_name(Kind k) { static const char* n[] = {"flag", "int", "double", "string", "optional<int>", "vector<int>", "vector<string>"}; return n[k]; }
inline bool is_vec(Kind k) { return k == VECINT || k == VECSTR; }

struct Check { int type = 0; double a = 0, b = 0; std::string s; };   // 1 lower 2 upper 3 range 4 values 5 minLength 6 maxLength 7 pattern 8 values (ignoring case)
struct Arg {
   char sk = 0; std::string lk;      // keys; positional argument: both empty
   Kind kind = FLAG;
   bool mandatory = false, deprecated = false, multival = false, hidden = false;
   std::vector<Check> checks;
   int card = 0, cardA = 0, cardB = 0;   // 0 library default, 1 exact(A), 2 max(A), 3 range(A,B), 4 none
   std::vector<int> excl, req;           // indices of partner arguments
   int cspell = 0;                       // how THIS argument writes its partners in the constraint text: 0 complete key spec, 1 short key only, 2 long key only (where the partner has it)
   char sep = ',';
   bool positional() const { return sk == 0 && lk.empty(); }
   std::string spec() const { if (positional()) return "-"; if (sk && !lk.empty()) return std::string(1, sk) + "," + lk; return sk ? std::string(1, sk) : lk; }
};
struct HConstraint { int type = 0; std::vector<int> members; };   // 1 all_of 2 any_of 3 one_of 4 differ 5 disjoint
struct Cfg {
   std::vector<Arg> args; std::vector<HConstraint> hcs; bool abbr = true;
   std::string text() const {
      std::string s = abbr ? "" : "[no-abbr] ";
      for (size_t i = 0; i < args.size(); ++i) {
         const Arg& a = args[i]; s += "{" + a.spec() + ":" + kind_name(a.kind);
         if (a.mandatory) s += " mandatory"; if (a.deprecated) s += " deprecated"; if (a.multival) s += " multival";
         for (auto& c : a.checks) { static const char* cn[] = {"", "lower", "upper", "range", "values", "minLength", "maxLength", "pattern", "values-ignore-case"}; s += std::string(" ") + cn[c.type] + "("; if (c.type <= 3) { s += std::to_string(int(c.a)); if (c.type == 3) s += "," + std::to_string(int(c.b)); } else if (c.type == 4 || c.type == 7 || c.type == 8) s += c.s; else s += std::to_string(int(c.a)); s += ")"; }
         if (a.card) { static const char* kn[] = {"", "exact", "max", "range", "none"}; s += std::string(" card_") + kn[a.card] + "(" + std::to_string(a.cardA) + (a.card == 3 ? "," + std::to_string(a.cardB) : "") + ")"; }
         for (int e : a.excl) s += " excludes(" + args[e].spec() + ")"; for (int e : a.req) s += " requires(" + args[e].spec() + ")";
         if (a.cspell) s += a.cspell == 1 ? " [partner written by short key]" : " [partner written by long key]";
         if (a.sep != ',') s += std::string(" sep'") + a.sep + "'";
         s += "} ";
      }
      for (auto& h : hcs) { static const char* hn[] = {"", "all_of", "any_of", "one_of", "differ", "disjoint"}; s += std::string(hn[h.type]) + "("; for (size_t i = 0; i < h.members.size(); ++i) s += (i ? ";" : "") + args[h.members[i]].spec(); s += ") "; }
      return s;
   }
};

// ---- destination variables: every argument slot owns one variable of every supported type
struct Slot {
   bool b = false; int i = -777; double d = -7.5; std::string s = "<init>"; std::optional<int> o; std::vector<int> vi; std::vector<std::string> vs;
};
inline std::string fmt_d(double d) { char b[40]; snprintf(b, sizeof b, "%.17g", d); return b; }
inline std::string slot_text(const Slot& s, Kind k) {
   switch (k) {
   case FLAG: return s.b ? "true" : "false";
   case INT: return std::to_string(s.i);
   case DBL: return fmt_d(s.d);
   case STR: return "\"" + s.s + "\"";
   case OPTINT: return s.o ? std::to_string(*s.o) : "<none>";
   case VECINT: { std::string r = "["; for (size_t i = 0; i < s.vi.size(); ++i) r += (i ? "," : "") + std::to_string(s.vi[i]); return r + "]"; }
   case VECSTR: { std::string r = "["; for (size_t i = 0; i < s.vs.size(); ++i) r += (i ? "|" : "") + s.vs[i]; return r + "]"; }
   }
   return "?";
}
typedef std::vector<std::string> Snapshot;     // one text per argument
inline std::string snap_text(const Snapshot& s) { std::string r; for (auto& x : s) r += x + " ; "; return r; }

// ---- building the real handler
struct Built {
   std::ostringstream out, err;
   std::unique_ptr<celma::prog_args::Handler> h;
   std::vector<Slot> slots;
   std::vector<celma::prog_args::detail::TypedArgBase*> targs;
};
inline celma::prog_args::detail::ICheck* make_check(const Check& c, Kind k) {
   using namespace celma::prog_args;
   switch (c.type) {
   case 1: return k == DBL ? lower(c.a) : lower(int(c.a));
   case 2: return k == DBL ? upper(c.a) : upper(int(c.a));
   case 3: return k == DBL ? range(c.a, c.b) : range(int(c.a), int(c.b));
   case 4: return values(c.s);
   case 5: return minLength(size_t(c.a));
   case 6: return maxLength(size_t(c.a));
   case 7: return pattern(c.s);
   case 8: return values(c.s, true);
   }
   return nullptr;
}
// adds the arguments [first,last) of cfg to handler h (slots/targs indexed by global argument index)
inline void add_arguments(const Cfg& cfg, celma::prog_args::Handler& h, std::vector<Slot>& slots, std::vector<celma::prog_args::detail::TypedArgBase*>& targs, const std::vector<int>& which) {
   using namespace celma::prog_args;
   for (int i : which) {
      const Arg& a = cfg.args[i]; Slot& s = slots[i]; detail::TypedArgBase* t = nullptr; std::string name = "var" + std::to_string(i);
      switch (a.kind) {
      case FLAG: t = h.addArgument(a.spec(), destination(s.b, name), "desc"); break;
      case INT: t = h.addArgument(a.spec(), destination(s.i, name), "desc"); break;
      case DBL: t = h.addArgument(a.spec(), destination(s.d, name), "desc"); break;
      case STR: t = h.addArgument(a.spec(), destination(s.s, name), "desc"); break;
      case OPTINT: t = h.addArgument(a.spec(), destination(s.o, name), "desc"); break;
      case VECINT: t = h.addArgument(a.spec(), destination(s.vi, name), "desc"); break;
      case VECSTR: t = h.addArgument(a.spec(), destination(s.vs, name), "desc"); break;
      }
      targs[i] = t;
      if (a.mandatory) t->setIsMandatory();
      if (a.deprecated) t->setIsDeprecated();
      if (a.hidden) t->setIsHidden();
      if (a.multival) t->setTakesMultiValue();
      if (a.sep != ',') t->setListSep(a.sep);
      for (auto& c : a.checks) t->addCheck(make_check(c, a.kind));
      switch (a.card) { case 1: t->setCardinality(cardinality_exact(a.cardA)); break; case 2: t->setCardinality(cardinality_max(a.cardA)); break;
                        case 3: t->setCardinality(cardinality_range(a.cardA, a.cardB)); break; case 4: t->setCardinality(nullptr); break; }
   }
   // argument constraints refer to other arguments of the same handler: added when all are defined
   for (int i : which) {
      const Arg& a = cfg.args[i];
      auto pname = [&](int e) { const Arg& p = cfg.args[e]; if (a.cspell == 1 && p.sk) return std::string(1, p.sk); if (a.cspell == 2 && !p.lk.empty()) return p.lk; return p.spec(); };
      for (int e : a.excl) targs[i]->addConstraint(excludes(pname(e)));
      for (int e : a.req) targs[i]->addConstraint(requiresArg(pname(e)));
   }
}
inline void add_hconstraints(const Cfg& cfg, celma::prog_args::Handler& h, const std::vector<HConstraint>& hcs) {
   using namespace celma::prog_args;
   for (auto& hcn : hcs) {
      std::string list; for (size_t i = 0; i < hcn.members.size(); ++i) list += (i ? ";" : "") + cfg.args[hcn.members[i]].spec();
      switch (hcn.type) { case 1: h.addConstraint(all_of(list)); break; case 2: h.addConstraint(any_of(list)); break; case 3: h.addConstraint(one_of(list)); break;
                          case 4: h.addConstraint(differ(list)); break; case 5: h.addConstraint(disjoint(list)); break; }
   }
}
inline std::unique_ptr<Built> build(const Cfg& cfg, int extra_flags = 0) {
   using namespace celma::prog_args;
   std::unique_ptr<Built> b(new Built);
   b->slots.resize(cfg.args.size()); b->targs.resize(cfg.args.size(), nullptr);
   b->h.reset(new Handler(b->out, b->err, (cfg.abbr ? 0 : Handler::hfNoAbbr) | extra_flags));
   std::vector<int> all; for (size_t i = 0; i < cfg.args.size(); ++i) all.push_back(int(i));
   add_arguments(cfg, *b->h, b->slots, b->targs, all);
   add_hconstraints(cfg, *b->h, cfg.hcs);
   return b;
}
inline Snapshot snapshot(const Cfg& cfg, const std::vector<Slot>& slots) { Snapshot s; for (size_t i = 0; i < cfg.args.size(); ++i) s.push_back(slot_text(slots[i], cfg.args[i].kind)); return s; }

// ---- argv with exact-size heap words (a one-byte over-read lands in a red zone)
struct Argv {
   std::vector<char*> v;
   explicit Argv(const std::vector<std::string>& words, const std::string& prog = "prog") {
      auto dup = [](const std::string& s) { char* p = static_cast<char*>(malloc(s.size() + 1)); memcpy(p, s.c_str(), s.size() + 1); return p; };
      v.push_back(dup(prog)); for (auto& w : words) v.push_back(dup(w)); v.push_back(nullptr);
   }
   Argv(const Argv&) = delete;
   ~Argv() { for (char* p : v) free(p); }
   int argc() const { return int(v.size()) - 1; }
   char** argv() { return v.data(); }
};
inline std::string words_text(const std::vector<std::string>& w) { std::string s; for (auto& x : w) s += "'" + vf::vis(x) + "' "; return s; }

struct Outcome { int kind = 0; std::string what; Snapshot snap; };    // 0 returned, 1 std::exception, 2 other exception
inline Outcome run(const Cfg& cfg, const std::vector<std::string>& words, int extra_flags = 0) {
   Outcome o; std::unique_ptr<Built> b;
   try { b = build(cfg, extra_flags); } catch (const std::exception& e) { o.kind = 1; o.what = std::string("DEFINITION REFUSED: ") + e.what(); return o; }
   Argv av(words);
   try { b->h->evalArguments(av.argc(), av.argv()); } catch (const std::exception& e) { o.kind = 1; o.what = e.what(); } catch (...) { o.kind = 2; o.what = "non-std exception"; }
   o.snap = snapshot(cfg, b->slots);
   vf::heartbeat();
   return o;
}

// ================================================================================================ model
struct Use { int arg; bool hasval = false; std::string val; std::vector<std::string> more; };   // more: further separate values (multi-value arguments)
inline std::string uses_text(const Cfg& cfg, const std::vector<Use>& u) {
   std::string s; for (auto& x : u) { s += "<" + cfg.args[x.arg].spec(); if (x.hasval) s += "=" + vf::vis(x.val); for (auto& m : x.more) s += "+" + vf::vis(m); s += "> "; } return s;
}
enum VKind { VALID, INVALID, UNSPEC };
struct Verdict { VKind k = VALID; std::string reason; Snapshot snap; };

inline bool conv_int(const std::string& t, long long& out) {
   if (t.empty() || isspace((unsigned char)t[0]) || t[0] == '+') return false;
   errno = 0; char* e = nullptr; out = strtoll(t.c_str(), &e, 10);
   return errno == 0 && e && *e == 0 && out >= INT_MIN && out <= INT_MAX;
}
inline bool conv_dbl(const std::string& t, double& out) {
   if (t.empty() || isspace((unsigned char)t[0]) || t[0] == '+') return false;
   errno = 0; char* e = nullptr; out = strtod(t.c_str(), &e);
   return errno == 0 && e && *e == 0;
}
// checks of one argument on one value text; "" = passes, otherwise the rule name
inline std::string check_value(const Arg& a, const std::string& v) {
   for (auto& c : a.checks) {
      if (c.type <= 3) { double x; if (!conv_dbl(v, x)) return "convert"; if (c.type == 1 && !(x >= c.a)) return "lower"; if (c.type == 2 && !(x < c.a)) return "upper"; if (c.type == 3 && !(x >= c.a && x < c.b)) return "range"; }
      else if (c.type == 8) { auto low = [](std::string t) { for (auto& ch : t) ch = char(tolower((unsigned char)ch)); return t; }; bool f = false; size_t p = 0; for (;;) { size_t q = c.s.find(',', p); std::string e = c.s.substr(p, q == std::string::npos ? q : q - p); if (low(e) == low(v)) f = true; if (q == std::string::npos) break; p = q + 1; } if (!f) return "values"; }
      else if (c.type == 4) { bool f = false; size_t p = 0; for (;;) { size_t q = c.s.find(',', p); std::string e = c.s.substr(p, q == std::string::npos ? q : q - p); if (e == v) f = true; if (q == std::string::npos) break; p = q + 1; } if (!f) return "values"; }
      else if (c.type == 5) { if (v.size() < size_t(c.a)) return "minLength"; }
      else if (c.type == 6) { if (v.size() > size_t(c.a)) return "maxLength"; }
      else if (c.type == 7) { if (!std::regex_match(v, std::regex(c.s))) return "pattern"; }
   }
   return "";
}
inline std::vector<std::string> split_list(const std::string& v, char sep) { std::vector<std::string> r; size_t p = 0; for (;;) { size_t q = v.find(sep, p); r.push_back(v.substr(p, q == std::string::npos ? q : q - p)); if (q == std::string::npos) break; p = q + 1; } return r; }

// counts_card: false for uses delivered through a file or an environment variable
struct MState {
   std::vector<Slot> slots; std::vector<int> cardcount; std::vector<bool> used; std::vector<bool> excluded; std::vector<int> required_by; std::vector<bool> req_pending;
   std::vector<int> first_used_member;    // per handler constraint: argument index of the member used first (-1)
   std::vector<std::vector<bool>> hc_used;
};
inline void model_init(const Cfg& cfg, MState& m) {
   size_t n = cfg.args.size(); m.slots.assign(n, Slot()); m.cardcount.assign(n, 0); m.used.assign(n, false); m.excluded.assign(n, false); m.req_pending.assign(n, false);
   m.first_used_member.assign(cfg.hcs.size(), -1); m.hc_used.assign(cfg.hcs.size(), std::vector<bool>(n, false));
}
// applies one use; returns "" or the broken rule; sets unspec when the documentation does not define the case
inline std::string model_use(const Cfg& cfg, MState& m, const Use& u, bool counts_card, bool& unspec, std::string& unspec_why) {
   const Arg& a = cfg.args[u.arg];
   if (a.deprecated) return "deprecated";
   if (a.kind == FLAG ? u.hasval : !u.hasval) return "value-missing";
   if (m.excluded[u.arg]) return "excluded";
   m.req_pending[u.arg] = false;
   for (size_t h = 0; h < cfg.hcs.size(); ++h) {
      const HConstraint& hcn = cfg.hcs[h]; bool member = false; for (int x : hcn.members) if (x == u.arg) member = true;
      if (!member) continue;
      if (hcn.type == 2 || hcn.type == 3) {
         if (m.first_used_member[h] >= 0 && m.first_used_member[h] != u.arg) return hcn.type == 2 ? "any-of" : "one-of";
         if (m.first_used_member[h] == u.arg) { unspec = true; unspec_why = "same member of any_of/one_of used twice"; }
         m.first_used_member[h] = u.arg;
      }
      m.hc_used[h][u.arg] = true;
   }
   // values of this use
   std::vector<std::string> vals; if (u.hasval) { vals.push_back(u.val); for (auto& x : u.more) vals.push_back(x); }
   Slot& s = m.slots[u.arg];
   // cardinality limits
   auto limit = [&]() -> int { switch (a.card) { case 0: return is_vec(a.kind) ? -1 : 1; case 1: return a.cardA; case 2: return a.cardA; case 3: return a.cardB; default: return -1; } };
   auto count_one = [&]() -> bool { if (!counts_card) return true; ++m.cardcount[u.arg]; int l = limit(); return l < 0 || m.cardcount[u.arg] <= l; };
   if (a.kind == FLAG) { if (!count_one()) return "cardinality"; s.b = true; }
   else {
      for (size_t vi_ = 0; vi_ < vals.size(); ++vi_) {
         const std::string& v = vals[vi_];
         if (is_vec(a.kind)) {
            std::vector<std::string> el = split_list(v, a.sep);
            for (auto& e : el) {
               if (e.empty()) { unspec = true; unspec_why = "empty list element"; continue; }
               if (!count_one()) return "cardinality";
               std::string cr = check_value(a, e); if (!cr.empty()) return cr;
               if (a.kind == VECINT) { long long x; if (!conv_int(e, x)) return "convert"; s.vi.push_back(int(x)); } else s.vs.push_back(e);
            }
         } else {
            if (!count_one()) return "cardinality";
            std::string cr = check_value(a, v); if (!cr.empty()) return cr;
            if (a.kind == INT) { long long x; if (!conv_int(v, x)) return "convert"; s.i = int(x); }
            else if (a.kind == OPTINT) { long long x; if (!conv_int(v, x)) return "convert"; s.o = int(x); }
            else if (a.kind == DBL) { double x; if (!conv_dbl(v, x)) return "convert"; s.d = x; }
            else s.s = v;
         }
      }
   }
   m.used[u.arg] = true;
   for (int e : a.excl) m.excluded[e] = true;
   for (int r : a.req) { if (m.used[r] && !m.req_pending[r]) { /* partner only seen before the requirer so far */ } m.req_pending[r] = true; }
   return "";
}
inline Verdict model_finish(const Cfg& cfg, MState& m, bool unspec, const std::string& unspec_why, const std::vector<int>& use_order) {
   Verdict v; v.snap = snapshot(cfg, m.slots);
   auto has_value = [&](int i) { const Arg& a = cfg.args[i]; return a.kind == OPTINT ? m.slots[i].o.has_value() : a.kind == VECINT ? !m.slots[i].vi.empty() : a.kind == VECSTR ? !m.slots[i].vs.empty() : bool(m.used[i]); };
   for (size_t i = 0; i < cfg.args.size(); ++i) {
      const Arg& a = cfg.args[i];
      if (a.mandatory && !has_value(int(i))) { v.k = INVALID; v.reason = "mandatory"; return v; }
      if (m.cardcount[i] > 0) { if (a.card == 1 && m.cardcount[i] != a.cardA) { v.k = INVALID; v.reason = "cardinality"; return v; } if (a.card == 3 && m.cardcount[i] < a.cardA) { v.k = INVALID; v.reason = "cardinality"; return v; } }
   }
   for (size_t i = 0; i < cfg.args.size(); ++i) if (m.req_pending[i]) {
      // partner absent from the whole line: must be rejected. partner used, but only BEFORE the requiring argument: unspecified
      if (m.used[i]) { v.k = UNSPEC; v.reason = "required partner only before the requiring argument"; return v; }
      v.k = INVALID; v.reason = "required"; return v;
   }
   for (size_t h = 0; h < cfg.hcs.size(); ++h) {
      const HConstraint& hcn = cfg.hcs[h]; size_t nused = 0; for (int x : hcn.members) if (m.hc_used[h][x]) ++nused;
      if (hcn.type == 1) { if (nused == 0) { v.k = UNSPEC; v.reason = "all_of with no member used (documents disagree)"; return v; } if (nused != hcn.members.size()) { v.k = INVALID; v.reason = "all-of"; return v; } }
      if (hcn.type == 3 && nused == 0) { v.k = INVALID; v.reason = "one-of"; return v; }
      if (hcn.type == 4) { for (size_t i = 0; i < hcn.members.size(); ++i) for (size_t j = i + 1; j < hcn.members.size(); ++j) { int x = hcn.members[i], y = hcn.members[j];
            if (has_value(x) && has_value(y) && slot_text(m.slots[x], cfg.args[x].kind) == slot_text(m.slots[y], cfg.args[y].kind)) { v.k = INVALID; v.reason = "differ"; return v; } } }
      if (hcn.type == 5) { int x = hcn.members[0], y = hcn.members[1]; for (int e : m.slots[x].vi) for (int f : m.slots[y].vi) if (e == f) { v.k = INVALID; v.reason = "disjoint"; return v; }
                           for (auto& e : m.slots[x].vs) for (auto& f : m.slots[y].vs) if (e == f) { v.k = INVALID; v.reason = "disjoint"; return v; } }
   }
   (void)use_order;
   if (unspec) { v.k = UNSPEC; v.reason = unspec_why; }
   return v;
}
inline Verdict evaluate(const Cfg& cfg, const std::vector<Use>& uses) {
   MState m; model_init(cfg, m); bool unspec = false; std::string why; std::vector<int> order;
   for (auto& u : uses) {
      std::string r = model_use(cfg, m, u, true, unspec, why);
      if (!r.empty()) { Verdict v; v.k = unspec ? UNSPEC : INVALID; v.reason = unspec ? why : r; return v; }
      order.push_back(u.arg);
   }
   return model_finish(cfg, m, unspec, why, order);
}

// the same with a source per use: uses from a file or the environment do not count for the cardinality (documented)
inline Verdict evaluate_sources(const Cfg& cfg, const std::vector<Use>& uses, const std::vector<bool>& from_argv) {
   MState m; model_init(cfg, m); bool unspec = false; std::string why; std::vector<int> order;
   for (size_t i = 0; i < uses.size(); ++i) {
      std::string r = model_use(cfg, m, uses[i], from_argv[i], unspec, why);
      if (!r.empty()) { Verdict v; v.k = unspec ? UNSPEC : INVALID; v.reason = unspec ? why : r; return v; }
      order.push_back(uses[i].arg);
   }
   return model_finish(cfg, m, unspec, why, order);
}

// ================================================================================================ speller
// long-key prefixes that designate argument `ai` unambiguously (abbreviations enabled): proper prefixes p of its long key
// such that no other long key starts with p. (Exact keys of other arguments start with themselves, so they are excluded.)
inline std::vector<std::string> abbreviations(const Cfg& cfg, int ai) {
   std::vector<std::string> r; const std::string& lk = cfg.args[ai].lk; if (lk.empty() || !cfg.abbr) return r;
   for (size_t n = 2; n < lk.size(); ++n) {     // one-character "long" keys are read as short keys by the library: not an abbreviation
      std::string p = lk.substr(0, n); bool unique = true;
      for (size_t j = 0; j < cfg.args.size(); ++j) if (int(j) != ai && !cfg.args[j].lk.empty() && cfg.args[j].lk.compare(0, p.size(), p) == 0) unique = false;
      if (unique && n >= 1) r.push_back(p);
   }
   return r;
}
// all word sequences that spell ONE use; form 0 is the canonical one
inline std::vector<std::vector<std::string>> spell_use(const Cfg& cfg, const Use& u, bool with_abbr = true) {
   const Arg& a = cfg.args[u.arg]; std::vector<std::vector<std::string>> f;
   auto tail = [&](std::vector<std::string> w) { for (auto& m : u.more) w.push_back(m); return w; };
   if (a.positional()) { f.push_back(tail({u.val})); return f; }
   std::vector<std::string> longs; if (!a.lk.empty()) { longs.push_back(a.lk); if (with_abbr) for (auto& p : abbreviations(cfg, u.arg)) longs.push_back(p); }
   if (!u.hasval) {
      for (auto& l : longs) f.push_back({"--" + l});
      if (a.sk) f.push_back({std::string("-") + a.sk});
      return f;
   }
   bool dashval = !u.val.empty() && u.val[0] == '-';      // as a separate word such a value would be a key by definition
   bool emptyval = u.val.empty();
   for (auto& l : longs) { if (!dashval && !emptyval) f.push_back(tail({"--" + l, u.val})); f.push_back(tail({"--" + l + "=" + u.val})); }
   if (a.sk) { if (!dashval && !emptyval) f.push_back(tail({std::string("-") + a.sk, u.val})); if (!emptyval) f.push_back(tail({std::string("-") + a.sk + u.val})); }
   return f;
}
// enumerates surface forms of a whole line with at most maxdev uses not in canonical form (maxdev < 0: all forms);
// consecutive flags spelled with their short key may additionally be grouped behind one dash (counts as one deviation).
template <class F> inline void for_each_spelling(const Cfg& cfg, const std::vector<Use>& uses, int maxdev, F&& f, bool with_abbr = true) {
   std::vector<std::vector<std::vector<std::string>>> forms; std::vector<unsigned> radix;
   for (auto& u : uses) { forms.push_back(spell_use(cfg, u, with_abbr)); if (forms.back().empty()) return; radix.push_back(unsigned(forms.back().size())); }
   if (uses.empty()) { f(std::vector<std::string>(), 0); return; }
   vf::Odometer od(radix);
   while (od.next()) {
      int dev = 0; for (size_t i = 0; i < uses.size(); ++i) if (od[i] != 0) ++dev;
      if (maxdev >= 0 && dev > maxdev) continue;
      std::vector<std::string> words; for (size_t i = 0; i < uses.size(); ++i) for (auto& w : forms[i][od[i]]) words.push_back(w);
      f(words, dev);
      // grouping: maximal runs of >= 2 consecutive single-word short flags "-x"
      if (maxdev >= 0 && dev + 1 > maxdev) continue;
      std::vector<std::string> g; bool grouped = false;
      for (size_t i = 0; i < words.size();) {
         auto is_short_flag = [&](const std::string& w) { if (w.size() != 2 || w[0] != '-' || w[1] == '-') return false; for (auto& a : cfg.args) if (a.sk == w[1] && a.kind == FLAG) return true; return false; };
         if (is_short_flag(words[i])) { size_t j = i; std::string run = "-"; while (j < words.size() && is_short_flag(words[j])) { run += words[j][1]; ++j; } if (j - i >= 2) grouped = true; g.push_back(run); i = j; }
         else { g.push_back(words[i]); ++i; }
      }
      if (grouped) f(g, dev + 1);
   }
}

} // namespace hc
