// C01  Command-line values reach their typed destinations, whatever the spelling          (engine E2 xenum)
//
// configurations : k arguments (k=2 quick, k=3 thorough) drawn from key templates with shared long-key prefixes
//                  (i/input, n/in, c/inc, o/out), every key kind (short, long, both), every destination kind
//                  (flag, int, double, string, optional<int>, vector<int>, vector<string>), abbreviations on/off,
//                  both definition orders
// assignments    : every subset of the arguments used once, values from per-type domains with type limits and
//                  awkward shapes (INT_MIN, "a=b", "x y", "1,2", "-z", lists, ...)
// surface forms  : -k v, -kv, --key v, --key=v, every unambiguous proper prefix of the long key in both long forms,
//                  flags alone or grouped, every order of the uses. Values starting with '-' only attached.
// oracle         : evalArguments returns; every destination holds the value converted by the reference converter
//                  (strtol/strtod/identity, list split at ','); unused destinations keep their sentinel.
#include "harness/args.hpp"
using namespace hc;

static uint64_t g_evals = 0, g_forms_abbr = 0, g_forms_group = 0;

struct Tmpl { char sk; const char* lk; };
static const Tmpl TMPL[4] = {{'i', "input"}, {'n', "in"}, {'c', "inc"}, {'o', "out"}};

static std::vector<std::string> domain(Kind k, bool thin) {
   switch (k) {
   case FLAG: return {};
   case INT: return thin ? std::vector<std::string>{"42", "-2147483648"} : std::vector<std::string>{"0", "-5", "2147483647", "-2147483648", "42"};
   case DBL: return thin ? std::vector<std::string>{"1.5", "-0.25"} : std::vector<std::string>{"1.5", "-0.25", "1e3", "0"};
   case STR: return thin ? std::vector<std::string>{"a=b", "-z"} : std::vector<std::string>{"a", "a=b", "x y", "1,2", "-z", "--in"};
   case OPTINT: return thin ? std::vector<std::string>{"7"} : std::vector<std::string>{"7", "-1"};
   case VECINT: return thin ? std::vector<std::string>{"1,2,3", "-4,5"} : std::vector<std::string>{"7", "1,2,3", "-4,5"};
   case VECSTR: return thin ? std::vector<std::string>{"a,b"} : std::vector<std::string>{"a", "a,b", "x y,z"};
   }
   return {};
}

static std::string form_class(const Cfg& cfg, const std::vector<std::string>& words) {
   std::set<std::string> cls;
   for (auto& w : words) {
      if (w.size() >= 3 && w[0] == '-' && w[1] == '-') { std::string k = w.substr(2, w.find('=') == std::string::npos ? std::string::npos : w.find('=') - 2); bool full = false; for (auto& a : cfg.args) if (a.lk == k) full = true;
         cls.insert(std::string(full ? "long" : "abbr") + (w.find('=') != std::string::npos ? "=" : "")); }
      else if (w.size() >= 2 && w[0] == '-') { bool allflags = w.size() > 2; for (size_t i = 1; i < w.size() && allflags; ++i) { bool fl = false; for (auto& a : cfg.args) if (a.sk == w[i] && a.kind == FLAG) fl = true; allflags = fl; }
         cls.insert(w.size() == 2 ? "short" : allflags ? "group" : "short-glued"); }
   }
   std::string s; for (auto& c : cls) s += c + "+"; return s;
}

static void check_assignment(const Cfg& cfg, const std::vector<Use>& uses, int maxdev_identity, int maxdev_perm, uint64_t case_idx) {
   Verdict v = evaluate(cfg, uses);
   if (v.k != VALID) { vf::count(v.k == UNSPEC ? "skipped_unspecified" : "skipped_invalid_by_model"); return; }
   std::vector<size_t> perm(uses.size()); for (size_t i = 0; i < perm.size(); ++i) perm[i] = i;
   bool identity = true;
   do {
      std::vector<Use> pu; for (size_t i : perm) pu.push_back(uses[i]);
      for_each_spelling(cfg, pu, identity ? maxdev_identity : maxdev_perm, [&](const std::vector<std::string>& words, int dev) {
         Outcome o = run(cfg, words); ++g_evals;
         std::string fc = form_class(cfg, words); if (fc.find("abbr") != std::string::npos) ++g_forms_abbr; if (fc.find("group") != std::string::npos) ++g_forms_group;
         if (vf::verbose()) printf("  %s -> %s %s | %s\n", words_text(words).c_str(), o.kind ? "THROWS" : "returns", o.what.c_str(), snap_text(o.snap).c_str());
         std::string kinds; for (auto& u : pu) kinds += std::string(kind_name(cfg.args[u.arg].kind)) + ",";
         if (o.kind != 0) vf::violation("rejected|" + kinds + "|" + fc, cfg.text() + " line " + words_text(words) + " (" + uses_text(cfg, pu) + ") rejected: " + o.what, std::to_string(case_idx));
         else if (o.snap != v.snap) vf::violation("wrong-value|" + kinds + "|" + fc, cfg.text() + " line " + words_text(words) + " gives " + snap_text(o.snap) + " expected " + snap_text(v.snap), std::to_string(case_idx));
         (void)dev;
      });
      identity = false;
   } while (std::next_permutation(perm.begin(), perm.end()));
   vf::outcome(snap_text(v.snap).substr(0, 60));
}

static void run_config(const Cfg& cfg, bool thin, int devI, int devP, uint64_t case_idx) {
   size_t k = cfg.args.size();
   std::vector<std::vector<std::string>> dom; for (auto& a : cfg.args) dom.push_back(domain(a.kind, thin));
   for (unsigned mask = 1; mask < (1u << k); ++mask) {
      std::vector<unsigned> radix; std::vector<int> who;
      for (size_t i = 0; i < k; ++i) if (mask >> i & 1) { who.push_back(int(i)); radix.push_back(cfg.args[i].kind == FLAG ? 1u : unsigned(dom[i].size())); }
      vf::Odometer od(radix);
      while (od.next()) {
         std::vector<Use> uses;
         for (size_t j = 0; j < who.size(); ++j) { Use u; u.arg = who[j]; if (cfg.args[who[j]].kind != FLAG) { u.hasval = true; u.val = dom[who[j]][od[j]]; } uses.push_back(u); }
         check_assignment(cfg, uses, devI, devP, case_idx);
      }
      if (vf::deadline_hit()) return;
   }
}

int main(int argc, char** argv) {
   vf::init(argc, argv);
   const bool th = vf::thorough();
   if (vf::replaying()) { vf::ctx().only = strtoll(vf::replay_case().c_str(), nullptr, 10); vf::ctx().have_replay = false; }
   const Kind all_kinds[] = {FLAG, INT, DBL, STR, OPTINT, VECINT, VECSTR};
   const Kind few_kinds[] = {FLAG, INT, STR, VECINT};
   uint64_t configs = 0;
   // ---- k = 2 : ordered pairs of templates
   for (int t0 = 0; t0 < 4; ++t0) for (int t1 = 0; t1 < 4; ++t1) {
      if (t0 == t1) continue;
      for (int kk0 = 0; kk0 < 3; ++kk0) for (int kk1 = 0; kk1 < 3; ++kk1) for (Kind k0 : all_kinds) for (Kind k1 : all_kinds) for (int abbr = 0; abbr < 2; ++abbr) {
         if (!vf::want_case()) continue;
         Cfg cfg; cfg.abbr = abbr != 0;
         int ts[2] = {t0, t1}; int kks[2] = {kk0, kk1}; Kind ks[2] = {k0, k1};
         for (int j = 0; j < 2; ++j) { Arg a; if (kks[j] != 1) a.sk = TMPL[ts[j]].sk; if (kks[j] != 0) a.lk = TMPL[ts[j]].lk; a.kind = ks[j]; cfg.args.push_back(a); }
         vf::note(cfg.text()); ++configs;
         run_config(cfg, false, -1, -1, vf::current_case());
         vf::nontrivial_by_construction();
         if ((configs % 97) == 1) vf::sample(cfg.text() + ": every subset of the arguments x value domain x all spellings x both orders");
      }
   }
   // ---- k = 3, the prefix triple (both tiers): the key 'in' defined AFTER the two keys that extend it (input, inc), in both orders of those two;
   //      the exact key must still designate its own argument
   {
      const Kind two_kinds[] = {FLAG, INT};
      for (int ord = 0; ord < 2; ++ord) for (int kkm = 0; kkm < 27; ++kkm) for (Kind k0 : two_kinds) for (Kind k1 : two_kinds) for (Kind k2 : two_kinds) for (int abbr = 0; abbr < 2; ++abbr) {
         if (!vf::want_case()) continue;
         Cfg cfg; cfg.abbr = abbr != 0; std::vector<int> ts = ord ? std::vector<int>{2, 0, 1} : std::vector<int>{0, 2, 1};
         Kind ks[3] = {k0, k1, k2}; int kks[3] = {kkm % 3, kkm / 3 % 3, kkm / 9};
         for (int j = 0; j < 3; ++j) { Arg a; if (kks[j] != 1) a.sk = TMPL[ts[j]].sk; if (kks[j] != 0) a.lk = TMPL[ts[j]].lk; a.kind = ks[j]; cfg.args.push_back(a); }
         vf::note(cfg.text()); ++configs;
         run_config(cfg, true, 2, 0, vf::current_case());
         vf::nontrivial_by_construction();
      }
   }
   // ---- k = 3 (thorough): 4 unordered triples in definition order, reversed and with the middle key last, 4 destination kinds
   if (th) {
      for (int skip = 0; skip < 4; ++skip) for (int rev = 0; rev < 3; ++rev) for (int kkm = 0; kkm < 27; ++kkm) for (Kind k0 : few_kinds) for (Kind k1 : few_kinds) for (Kind k2 : few_kinds) for (int abbr = 0; abbr < 2; ++abbr) {
         if (!vf::want_case()) continue;
         Cfg cfg; cfg.abbr = abbr != 0; std::vector<int> ts; for (int t = 0; t < 4; ++t) if (t != skip) ts.push_back(t); if (rev == 1) std::reverse(ts.begin(), ts.end()); if (rev == 2) std::swap(ts[1], ts[2]);
         Kind ks[3] = {k0, k1, k2}; int kks[3] = {kkm % 3, kkm / 3 % 3, kkm / 9};
         for (int j = 0; j < 3; ++j) { Arg a; if (kks[j] != 1) a.sk = TMPL[ts[j]].sk; if (kks[j] != 0) a.lk = TMPL[ts[j]].lk; a.kind = ks[j]; cfg.args.push_back(a); }
         vf::note(cfg.text()); ++configs;
         run_config(cfg, true, 3, 1, vf::current_case());
         vf::nontrivial_by_construction();
      }
   }
   vf::count("evaluations", g_evals); vf::count("transitions", g_evals); vf::count("states", configs);
   vf::count("forms_with_abbreviation", g_forms_abbr); vf::count("forms_with_flag_group", g_forms_group);
   vf::finish();
   return 0;
}
