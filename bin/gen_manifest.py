#!/usr/bin/env python3
"""Regenerates /verif/MANIFEST.json from bin/checks.py (single source of truth) and validates it against the schema."""
import json, os, sys
sys.path.insert(0, os.path.dirname(os.path.abspath(__file__)))
from checks import CHECKS, NOT_APPLICABLE, ENGINES, MANIFEST_NOTES
V = '/verif'
m = dict(version=1, setup_cmd='bin/check --build-all',
         hooks=dict(guard='CELMA_VERIF', enable='every harness and every library translation unit is compiled by bin/check with -DCELMA_VERIF (no hook exists in /repo: nothing in the sources tests the macro)',
                    baseline_off_cmd='bin/baseline.sh /repo', source_commits=[], add_only=True),
         engines=ENGINES, checks=[], notes=MANIFEST_NOTES, not_applicable=NOT_APPLICABLE)
for cid in sorted(CHECKS):
    c = CHECKS[cid]
    m['checks'].append(dict(property_id=cid, quick_cmd='bin/check %s --tier quick' % cid, thorough_cmd='bin/check %s --tier thorough' % cid,
                            evidence_file='evidence/%s.json' % cid, replay_cmd_template='bin/check %s --replay {path}' % cid, engine=c['engine'],
                            level_claimed=dict(category=c['level'], text=c['level_text'], design_ref=c.get('design_ref', 'DESIGN.md section 4, ' + cid)),
                            level_note=c['level_note'], technique=c['technique']))
json.dump(m, open(os.path.join(V, 'MANIFEST.json'), 'w'), indent=1)
try:
    import jsonschema
    jsonschema.validate(m, json.load(open('/root/.vp/MANIFEST.schema.json')))
    print('MANIFEST.json valid, %d checks, %d not_applicable' % (len(m['checks']), len(NOT_APPLICABLE)))
except ImportError:
    print('MANIFEST.json written (jsonschema not importable here)')
