#!/bin/bash
# Defect hunting beyond the registered bounds: runs the thorough tier with VERIF_DEEP=1 (one step deeper where the harness supports it)
# and a long deadline. Not registered in MANIFEST.json; evidence and replays go to a scratch directory. usage: deep_hunt.sh <deadline-s> <ids...>
D=${1:-3600}; shift
cd "$(dirname "$(readlink -f "$0")")/.."
mkdir -p /tmp/deep
for i in "$@"; do
  t0=$(date +%s)
  out=$(VERIF_DEEP=1 VERIF_EVIDENCE_DIR=/tmp/deep/ev VERIF_REPLAY_DIR=/tmp/deep/rep bin/check $i --tier thorough --deadline $D 2>&1); rc=$?
  t1=$(date +%s)
  echo "rc=$rc $((t1-t0))s $(echo "$out" | grep -m1 "^$i thorough:")"
  echo "$out" | grep -A4 "^VIOLATION\|^CHECK-BROKEN" | cut -c1-400 | head -40
done
