#!/bin/bash
# usage: run_all.sh [quick|thorough] [ids...]   runs the registered checks one after the other, prints one summary line each
T=${1:-quick}; shift
IDS="$*"; [ -z "$IDS" ] && IDS=$(python3 -c "import sys;sys.path.insert(0,'/verif/bin');from checks import CHECKS;print(' '.join(sorted(CHECKS)))")
cd "$(dirname "$(readlink -f "$0")")/.."
for i in $IDS; do
  t0=$(date +%s); out=$(bin/check $i --tier $T 2>&1); rc=$?; t1=$(date +%s)
  echo "rc=$rc $((t1-t0))s $(echo "$out" | grep -m1 "^$i $T:")"
  if [ "$T" = thorough ] && [ -f evidence/$i.json ]; then mkdir -p evidence_thorough; cp evidence/$i.json evidence_thorough/$i.json; fi
  echo "$out" | grep "^VIOLATION\|^CHECK-BROKEN\|^KNOWN-FINDING" | cut -c1-200
done
