#!/bin/bash
# usage: confirm_seed.sh <outdir-of-agent> [extra g++ flags]   -> prints CONFIRMED or a reason; scratch worktree is removed afterwards
OUT=$1; shift
N=$(basename $OUT)
WT=/tmp/confirm/$N
rm -rf $WT; mkdir -p /tmp/confirm
git -C /repo worktree add --detach $WT HEAD >/dev/null 2>&1 || { echo "NO-WORKTREE"; exit 2; }
res=""
cd $WT
/tmp/tools/buildlib.sh $WT >/dev/null 2>&1 || res="clean lib build failed"
build_demo() { if [ -f $OUT/run_demo.sh ]; then return 0; fi; g++ -std=c++17 -w -I$WT/src $OUT/demo.cpp $WT/_lib/libcelma.a -lpthread "$@" -o $WT/demo 2>$WT/demo_build.log; }
run_demo() { if [ -f $OUT/run_demo.sh ]; then (cd $OUT && WT=$WT bash run_demo.sh $WT) >$WT/demo_run.log 2>&1; else timeout 300 $WT/demo >$WT/demo_run.log 2>&1; fi; }
if [ -z "$res" ]; then build_demo "$@" || res="demo does not build on clean tree: $(head -3 $WT/demo_build.log)"; fi
if [ -z "$res" ]; then run_demo; rc=$?; [ $rc -eq 0 ] || res="demo fails on the CLEAN tree (rc=$rc): $(tail -2 $WT/demo_run.log)"; fi
if [ -z "$res" ]; then git apply --3way $OUT/patch.diff >/dev/null 2>&1 || git apply $OUT/patch.diff 2>/dev/null || res="patch does not apply to current HEAD"; fi
if [ -z "$res" ]; then /tmp/tools/buildlib.sh $WT >/dev/null 2>&1 || res="lib does not build with the patch"; fi
if [ -z "$res" ]; then build_demo "$@" || res="demo does not build with the patch"; fi
if [ -z "$res" ]; then run_demo; rc=$?; [ $rc -ne 0 ] || res="demo PASSES with the patch (not a detectable break)"; fi
if [ -z "$res" ]; then b=$(/tmp/tools/baseline.sh $WT 2>&1 | grep BASELINE); echo "$b" | grep -q "passed=42/42" || res="baseline: $b"; fi
cd /
git -C /repo worktree remove --force $WT >/dev/null 2>&1; rm -rf $WT
if [ -z "$res" ]; then echo "CONFIRMED $N (clean: demo passes; patched: lib builds, demo fails, baseline 42/42)"; else echo "REJECTED $N: $res"; fi
