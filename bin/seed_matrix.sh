#!/bin/bash
# usage: seed_matrix.sh [--tier quick|thorough] <seed-name>...   (default: all of /verif/seeded/*)
# Runs the check of each seed's property against a SCRATCH worktree of /repo HEAD with the seed's patch applied
# (never touches /repo's working tree; own object cache, evidence and replay directories under /tmp/sm), and
# prints one line per seed: DETECTED / MISSED / BROKEN.  Results are appended to /tmp/sm/results.txt.
set -u
V=/verif
TIER=quick
if [ "${1:-}" = "--tier" ]; then TIER=$2; shift 2; fi
SEEDS="$*"
[ -z "$SEEDS" ] && SEEDS=$(ls $V/seeded)
SM=/tmp/sm
mkdir -p $SM
WT=$SM/repo
if [ ! -d $WT ]; then git -C /repo worktree add --detach $WT HEAD >/dev/null 2>&1 || { echo "cannot create worktree"; exit 2; }; fi
git -C $WT checkout -q --detach $(git -C /repo rev-parse HEAD) 2>/dev/null
for S in $SEEDS; do
  D=$V/seeded/$S
  [ -f $D/patch.diff ] || { echo "$S: no patch"; continue; }
  P=$(python3 -c "import json;print(json.load(open('$D/meta.json'))['breaks_property'])")
  PROPS=${SEED_PROPS:-$P}
  git -C $WT reset -q --hard HEAD; git -C $WT clean -fdq -- src >/dev/null 2>&1
  if ! git -C $WT apply $D/patch.diff 2>/dev/null; then
    if ! git -C $WT apply --3way $D/patch.diff >/dev/null 2>&1 || [ -n "$(git -C $WT diff --name-only --diff-filter=U)" ]; then echo "$S $P: PATCH-DOES-NOT-APPLY" | tee -a $SM/results.txt; git -C $WT reset -q --hard HEAD; continue; fi
    git -C $WT reset -q >/dev/null 2>&1
  fi
  for Q in $PROPS; do
    if ! python3 -c "import sys;sys.path.insert(0,'$V/bin');from checks import CHECKS;sys.exit(0 if '$Q' in CHECKS else 1)"; then echo "$S $Q: NO-CHECK-YET" | tee -a $SM/results.txt; continue; fi
    t0=$(date +%s)
    CELMA_REPO=$WT VERIF_BUILD=$SM/build VERIF_EVIDENCE_DIR=$SM/ev VERIF_REPLAY_DIR=$SM/rep $V/bin/check $Q --tier $TIER > $SM/$S.$Q.log 2>&1
    rc=$?
    t1=$(date +%s)
    nv=$(grep -c '^VIOLATION' $SM/$S.$Q.log)
    sig=$(grep -m1 'signature:' $SM/$S.$Q.log | cut -c1-160)
    case $rc in
      1) echo "$S $Q $TIER: DETECTED ($nv violation lines, $((t1-t0))s) $sig" | tee -a $SM/results.txt;;
      0) echo "$S $Q $TIER: MISSED ($((t1-t0))s)" | tee -a $SM/results.txt;;
      *) echo "$S $Q $TIER: BROKEN rc=$rc ($((t1-t0))s) $(grep -m1 'CHECK-BROKEN\|BUILD FAILED' $SM/$S.$Q.log | cut -c1-200)" | tee -a $SM/results.txt;;
    esac
  done
  git -C $WT reset -q --hard HEAD
done
