#!/usr/bin/env python3
"""save_seed.py <name> <property> <needs-text>  : copies /tmp/seed/<name>_out into /verif/seeded/<name>/ with meta.json and removes the agent's worktree"""
import sys, os, json, shutil, subprocess
name, prop, needs = sys.argv[1], sys.argv[2], sys.argv[3]
src = '/tmp/seed/%s_out' % name
dst = '/verif/seeded/%s' % name
os.makedirs(dst, exist_ok=True)
for f in os.listdir(src):
    if os.path.isfile(os.path.join(src, f)) and os.path.getsize(os.path.join(src, f)) < 400000 and not f.endswith('.o') and f not in ('demo',):
        shutil.copy(os.path.join(src, f), dst)
meta = dict(name=name, breaks_property=prop, needs_to_manifest=needs,
            confirmed='bin/confirm_seed.sh: scratch worktree of /repo HEAD; unchanged tree: library builds, demo exits 0; with patch.diff: library builds, demo exits non-zero, pinned baseline 42/42 passes',
            produced_by='independent sub-agent given only the property record and a scratch worktree', detected_by=[])
mp = os.path.join(dst, 'meta.json')
if os.path.exists(mp):
    old = json.load(open(mp)); meta['detected_by'] = old.get('detected_by', [])
json.dump(meta, open(mp, 'w'), indent=1)
subprocess.run(['git', '-C', '/repo', 'worktree', 'remove', '--force', '/tmp/seed/%s' % name], capture_output=True)
print('saved', dst)
