"""Table of checks: one entry per property. Read by bin/check."""
import os

_COMMON = ['-std=c++17', '-DCELMA_VERIF', '-g', '-fno-omit-frame-pointer', '-Wno-deprecated-declarations', '-w']

FLAGSETS = {
    # optimised, no sanitizer: for the very large enumerations whose oracle is the result value
    'plain': dict(cxx='g++', cflags=_COMMON + ['-O2']),
    # address + undefined sanitizers, libstdc++ precondition assertions; aborting on the first report
    # (-fno-sanitize=vptr: Tokenizer's constructor calls a non-virtual helper member before its base is constructed; the vptr
    #  check reports that although no memory of the object is touched - not an access error, would be a false alarm)
    'asan': dict(cxx='g++', cflags=_COMMON + ['-O1', '-fsanitize=address,undefined', '-fno-sanitize=vptr', '-fno-sanitize-recover=undefined',
                                              '-D_GLIBCXX_ASSERTIONS', '-fno-access-control'],
                 ldflags=['-fsanitize=address,undefined'],
                 env={'ASAN_OPTIONS': 'detect_leaks=0:abort_on_error=1:detect_stack_use_after_return=0:quarantine_size_mb=64:allocator_may_return_null=1:max_allocation_size_mb=512',
                      'UBSAN_OPTIONS': 'print_stacktrace=1:halt_on_error=1:abort_on_error=1'}),
}

FLAGSETS['asanrec'] = dict(cxx='g++', cflags=_COMMON + ['-O1', '-fsanitize=address', '-fsanitize-recover=address', '-fno-sanitize-address-use-after-scope',
                                                        '-D_GLIBCXX_ASSERTIONS', '-fno-access-control'],
                           ldflags=['-fsanitize=address'],
                           env={'ASAN_OPTIONS': 'detect_leaks=0:halt_on_error=0:symbolize=0:print_legend=0:print_summary=0:allocator_may_return_null=1:handle_segv=0:handle_sigbus=0',
                                'UBSAN_OPTIONS': 'print_stacktrace=0:halt_on_error=0'})

# E3: compiled with ThreadSanitizer instrumentation but linked against the TSan-ABI implementation of engine/sched/xsched.cpp (NOT libtsan)
FLAGSETS['tsanabi'] = dict(cxx='g++', cflags=_COMMON + ['-O1', '-fsanitize=thread', '-fno-access-control'], ldflags=['-no-pie'], env={})
# the real ThreadSanitizer (free-running cross-check pass of the E3 harness bodies)
FLAGSETS['tsan'] = dict(cxx='g++', cflags=_COMMON + ['-O1', '-fsanitize=thread', '-fno-access-control', '-DXS_FREE_RUNNING'], ldflags=['-fsanitize=thread'], env={})
FLAGSETS['rt'] = dict(cxx='g++', cflags=['-std=c++17', '-O2', '-g', '-fno-omit-frame-pointer', '-w'], ldflags=[], env={})

CHECKS = {}

ENGINES = [
    dict(name='xstate', path='engine/common.hpp + harness/c10_fixed_string.cpp, c12_*, c15_*, c19_*', serves_properties=['C10', 'C11', 'C12', 'C15', 'C19'],
         kind_free_text='explicit-state search over real objects: BFS/fixed point over object images, every (state, operation, argument tuple) executed on the implementation against a reference model'),
    dict(name='xenum', path='engine/common.hpp + harness/c13_int2str.cpp and the argument-handler/log harnesses', serves_properties=['C13'],
         kind_free_text='bounded-exhaustive enumeration of whole inputs/configurations (odometer over finite domains), implementation executed on every member'),
    dict(name='xsched', path='engine/sched/xsched.cpp + xsched.hpp, harness/c09_concurrent.cpp, c20_helpers.cpp', serves_properties=['C09', 'C20'],
         kind_free_text='stateless preemption-bounded exploration of real threads: own TSan-ABI runtime (compiler-reported accesses), interposed pthread/guard/malloc, cooperative scheduler, fork per schedule, vector-clock race detector'),
]
MANIFEST_NOTES = ('All checks execute the real implementation compiled from /repo working tree; no separate formal model, so every explored trace is an implementation trace. '
                  'Deciding step everywhere: exhaustive enumeration inside stated bounds (object states, whole inputs, operation histories, thread schedules); VERIF_SEED only selects the samples copied into the evidence. '
                  'Driver: bin/check <id> --tier quick|thorough. Known/fixed findings: known_findings.json. Seeded breakage used to validate detection: seeded/*/meta.json.')
# properties without a registered check AT THIS COMMIT (each gets removed from this list by the commit that adds its check)
_PENDING = 'no check registered at this commit: the harness for this property is still being built (design in DESIGN.md section 4); nothing is claimed for it yet'
NOT_APPLICABLE = [dict(property_id=p, reason=_PENDING) for p in ('C09', 'C14', 'C15', 'C16', 'C18', 'C20')]

CHECKS['C13'] = dict(engine='xenum', technique='bounded-exhaustive enumeration of all values (2^8, 2^16, 2^32; structured 2^64 subset) against a reference formatter',
    level_text='every value of the enumerated sets is executed through all four function forms and compared with an independent formatter; complete for 8/16/32-bit types (32-bit in the thorough tier)',
    level_note='trusts the reference formatter (15 lines of repeated division) and libstdc++; 64-bit coverage is the structured set, not all values',
    title='Integer-to-string conversions are exact for every integer',
    harness=['harness/c13_int2str.cpp'], flags='plain', lib=True, level='model_checking',
    deadline={'quick': 120, 'thorough': 2400}, hang_s=60,
    rule='complete enumeration of value sets per integer type (all 2^8, 2^16 [, 2^32] values; structured 64-bit set) x 4 function forms '
         'x 5 group characters, each result compared with an independent repeated-division formatter; states = (type,value) points, '
         'transitions = calls of the implementation; non-trivial = distinct (type,value) with |value| >= 1000, i.e. the grouped text has a group character',
    bound={'quick': 'all 8/16-bit values; 32/64-bit structured set (d*10^k+e, 2^k+-2, <=3 non-zero digits, limits, both signs)',
           'thorough': 'quick + every one of the 2^32 values of int32_t and uint32_t'},
    assumptions=['64-bit types are covered on the structured set only (2^64 values cannot be enumerated): exhaustive refers to the enumerated sets',
                 'signed negation of the minimum value inside the library is judged by its result, not as undefined behaviour'],
)

_FS = dict(build_id='fixed_string', engine='xstate', technique='explicit-state model checking of the real object: fixed point over object images x complete argument alphabet, std::string as reference model',
    level_note='trusts AddressSanitizer shadow checks (report functions interposed by the harness), libstdc++ std::string as reference; capacities <= 7 plus 255/256 with thinned arguments',
    harness=['harness/c10_fixed_string.cpp'] + [dict(src='harness/c10_fixed_string.cpp', tag='L%d' % l, defs=['-DVF_CAP=%d' % l, '-DVF_THIN=%d' % t])
                                                for l, t in ((1, 0), (2, 0), (3, 0), (4, 0), (5, 0), (7, 1), (255, 1), (256, 1))], flags='asanrec', lib=False, level='model_checking', extra_ldflags=['-ldl'],
    deadline={'quick': 150, 'thorough': 1800}, hang_s=60, quiet_stderr=True,
    bound={'quick': 'capacity 255 (maximum of the 8-bit length type): one step from 9 seed states with thinned arguments; capacities L=1,2,3,4: full operation alphabet, positions/counts {0..L+2, 2L+3, SIZE_MAX/2, npos-2, npos-1, npos}, sources = all strings over {a,b} up to L+2 as const char*/std::string/FixedString<L-1|L|L+2>; state set closed (fixed point)',
           'thorough': 'quick + L=5 (full alphabet) + L=7,255,256 (thinned argument domains around 0,1,L-1,L,L+1 and the length-type boundary)'},
)
CHECKS['C10'] = dict(_FS, level_text='all operation sequences over the alphabet for capacities 1..4 (quick, plus one step from seed states at capacity 255) / up to 7, 255, 256 (thorough): the reachable state set closes, every transition is checked for memory safety and well-formedness', title='Fixed-capacity string never touches memory outside itself and stays well-formed',
    worker_args=['--opt', 'prop=C10'],
    rule='explicit-state search: state = byte image of a real FixedString<L>; transition = one public operation with one argument tuple (ALL tuples, in and out of the documented domain); '
         'oracle after every transition: no AddressSanitizer report (object between poisoned guard zones, exact-size sources), length<=capacity, NUL at length, strlen==length; '
         'non-trivial = distinct reachable object images per capacity',
    assumptions=['content alphabet {a,b}: no NUL characters are stored', 'for (const char*, count) overloads count <= strlen(str): the caller guarantees [str,str+count)',
                 'intra-object overflow (buffer into the length member) is only seen through its effect on length/terminator'])
CHECKS['C11'] = dict(_FS, level_text='same closed state space; every in-domain transition compared with std::string cut at the capacity, every observer with the std::string result', title='Fixed-capacity string equals std::string cut off at the capacity',
    worker_args=['--opt', 'prop=C11'],
    rule='same search as C10; oracle: for every in-domain argument tuple (std::string counterpart defined, non-empty operands for the find family/starts_with/ends_with/contains, no end()-insertions which the class documents as no-ops) '
         'mutators leave str()/length()/c_str() equal to the std::string result cut at L, observers return the std::string value; ==/!= complementary; non-trivial = distinct reachable object images',
    assumptions=['content alphabet {a,b}', 'behaviours pinned by the in-tree test_fixed_string that differ from std::string are excluded (listed in DESIGN.md)'])

CHECKS['C12'] = dict(title='Dynamic bitset behaves like a growable reference bit vector', engine='xstate',
    harness=['harness/c12_bitset.cpp'], flags='asan', lib=True, level='model_checking', deadline={'quick': 120, 'thorough': 1500}, hang_s=60,
    technique='explicit-state model checking of the real object: every bitset state up to a size bound x complete operation/position/operand alphabet against a hand-written set model',
    level_text='all states (size, set of positions) with size <= 7 (quick) / <= 9 (thorough) are expanded with every operation, position 0..size+2, shift 0..size+2 and every operand bitset of size <= 5 / <= 6; the state graph is closed for these sizes, so operation sequences of any length that stay within the size bound are covered',
    level_note='trusts the 40-line set-arithmetic reference, AddressSanitizer and libstdc++ debug assertions (bit-level bounds of vector<bool>); sizes beyond the bound are only reached as transition targets',
    rule='state = (size, set positions) of a real DynamicBitset built through its public interface; transition = one operation with one argument; after every transition all observers (test for every position, count, any, none, all, to_string, to_ulong, 5 iteration forms) are compared with the reference content; compound vs binary operators compared directly; non-trivial = distinct states expanded',
    bound={'quick': 'states with size <= 7 (255 states), operands size <= 5, positions/shifts 0..size+2, to_ulong bits 60..66',
           'thorough': 'states with size <= 9 (1023 states), operands size <= 6'},
    assumptions=['growth is judged by content and by size >= position+1, never by the growth factor', 'reset() is judged by content (all bits clear), not by the resulting size',
                 'undefined behaviour without observable effect (1L << 63) is not reported'])

CHECKS['C19'] = dict(title='Buffered reading and writing preserve the byte stream for every chunking', engine='xstate',
    harness=['harness/c19_buffers.cpp'], flags='asan', lib=False, level='model_checking', deadline={'quick': 120, 'thorough': 1200}, hang_s=60, workers=8,
    technique='explicit-state model checking of the real buffers: BFS over (start,end) / write position with every request length and EVERY source chunking as environment choice',
    level_text='the state space of ReadBuffer<N>/WriteBuffer<N> closes for N=1..6 (quick) / 1..10 (thorough): every get/append length 0..N+2 from every state with every way the source can split its answer; result therefore holds for unbounded histories at these capacities',
    level_note='canonical state drops the absolute stream offset (data-independence argument, cross-checked by expanding states reached at two offsets); trusts AddressSanitizer for the internal new[] buffer and exact-size caller buffers',
    rule='state = (mDataStart,mDataEnd) resp. mWritePos of a real object rebuilt by history replay; transition = get(len)/append(len)/flush with one complete vector of source answers (1..max bytes per readData call); '
         'oracle: returned/sunk bytes equal the position-coded stream, buffer content invariant, refusals of len>N, pass-through of oversized writes; non-trivial = distinct states',
    bound={'quick': 'N = 1..6, lengths 0..N+1 (read) / 0..N+2 + flush (write), all chunkings', 'thorough': 'N = 1..10'},
    assumptions=['the source always delivers at least 1 byte (a source that returns 0 forever makes get() spin by design)', 'byte values do not influence control flow (checked by the two-offset cross-check)'])

CHECKS['C17'] = dict(title='Text-block formatting preserves the words and respects indentation and width', engine='xenum',
    harness=['harness/c17_text_block.cpp'], flags='asan', lib=True, level='model_checking', deadline={'quick': 120, 'thorough': 1500}, hang_s=60,
    technique='bounded-exhaustive enumeration of all texts up to a word count over a word-shape alphabet x all width/indent/first-line configurations, property oracle on the produced text',
    level_text='every text of <= 4 (quick) / <= 5 (thorough) words over the shape alphabet, joined by blanks or newlines, is formatted with every (width 8..12, indent 0..3, first-line mode) and the four clauses of the property are evaluated on the real output',
    level_note='oracle evaluates the output only (no second wrapping algorithm to keep in sync); word lengths are thinned to the neighbourhood of the wrap condition; single separators only (multiple blanks/empty lines are outside the property\'s quantifier)',
    rule='input = configuration x word sequence x separator sequence (odometer); states = inputs, transitions = TextBlock::format calls; non-trivial = inputs whose output has more than one line',
    bound={'quick': 'W 8..12 x indent 0..3 x 2 modes; texts of 1..4 words, 8-10 word shapes, 2 separators', 'thorough': 'texts of 1..5 words (6 for W=8, indent=3)'},
    assumptions=['the first line is measured as if the caller had already written the indentation when indentFirst is off (this is how the class is used by the usage printer)'])

_ARGS_NOTE = 'trusts the abstract evaluator (harness/args.hpp, rules cited in DESIGN.md appendix A) and libstdc++/boost; bounded by the number of arguments, uses and the value/key alphabets'
CHECKS['C01'] = dict(title='Command-line values reach their typed destinations, whatever the spelling', engine='xenum',
    harness=['harness/c01_spellings.cpp'], flags='asan', lib=True, level='model_checking', deadline={'quick': 240, 'thorough': 2400}, hang_s=60,
    technique='bounded-exhaustive enumeration: all argument configurations of a size x all assignments x ALL surface spellings and orders, executed on the real Handler against an abstract evaluator',
    level_text='every configuration of 2 (quick) / 3 (thorough) arguments over 7 destination kinds, 3 key kinds, prefix-sharing long keys, abbreviations on/off; every assignment from the value domains; every legal spelling (short/long/=/glued/abbreviation/flag group) and order; each evaluated and compared with the intended typed values',
    level_note=_ARGS_NOTE,
    rule='configuration x subset of arguments x values (odometer) x surface forms (odometer over per-use spellings + flag grouping) x permutations; states = configurations, transitions = evalArguments calls; non-trivial = configurations',
    bound={'quick': '2 arguments, all kinds/keys, all spellings, both orders; + the prefix triple (input, inc, in with the shortest key defined last), 2 kinds, <= 2 spelling deviations', 'thorough': '+ 3 arguments (4 kinds) in 3 definition orders, <=3 spelling deviations in definition order, all 6 orders of the uses with <=1 deviation'},
    assumptions=['values beginning with a dash are only spelled attached (= / glued): as a separate word they are keys by definition', 'flag variables start false (an initially-true flag variable is unspecified, see DESIGN appendix A4)'])

_RULES = dict(engine='xenum', harness=['harness/c02_rules.cpp'], flags='asan', lib=True, level='model_checking', build_id='rules', deadline={'quick': 240, 'thorough': 2400}, hang_s=60,
    technique='bounded-exhaustive enumeration: rule-matrix configurations x ALL abstract lines up to a depth x surface spellings, executed on the real Handler; verdict from an abstract rule evaluator',
    level_note=_ARGS_NOTE,
    bound={'quick': 'one rule family per configuration (~140 configurations incl. two rules on the same partner x abbreviations on/off), all lines of <= 3 uses, spellings with <= 2 deviations',
           'thorough': 'lines of <= 4 uses, <= 2 deviations, + pairs of rule families on disjoint arguments (lines <= 3 uses), more bystanders'})
CHECKS['C02'] = dict(_RULES, title='No command line that breaks a declared rule is silently accepted', worker_args=['--opt', 'prop=C02'],
    level_text='every rule of the matrix x every abstract line of <= 3/4 uses that the evaluator calls invalid, in canonical spelling and every spelling with <= 2 deviations, plus surface-level mutations (unknown key, missing value, stray value, forbidden/ambiguous abbreviation): evalArguments must throw',
    rule='configuration (rule family x destination kinds x key kinds) x sequences of uses over value domains with good/boundary/bad values x spellings; states = configurations, transitions = evalArguments calls; non-trivial = configurations; counters report how often each rule was the broken one',
    assumptions=['only WHICH lines must be rejected is judged, never the exception type or message', 'lines whose verdict the documentation leaves open are skipped and counted (abstract_lines_unspecified_skipped)'])
CHECKS['C03'] = dict(_RULES, title='Every command line that obeys the declared rules is accepted', worker_args=['--opt', 'prop=C03'],
    level_text='every abstract line the evaluator calls valid, for every rule configuration and 3 (thorough 5) bystander variants, in every spelling with <= 2 deviations: evalArguments must return and leave the evaluator\'s values',
    rule='as C02 with the valid lines; bystander variants add unused arguments with own checks/constraints/hidden/deprecated flags and long keys that extend or are prefixes of used keys',
    assumptions=['order-sensitive rules are judged as documented (excluded argument before its excluder is valid; required partner only before the requirer is unspecified and skipped)'])

CHECKS['C05'] = dict(title='A key designates exactly one argument, independent of definition order', engine='xenum',
    harness=['harness/c05_keys.cpp'], flags='asan', lib=True, level='model_checking', deadline={'quick': 240, 'thorough': 2400}, hang_s=60,
    technique='bounded-exhaustive enumeration of all key-specification sequences (= sets in every definition order) x every exact key and prefix lookup, against a set model',
    level_text='all sequences of <= 4 (quick) / <= 5 (thorough) key specifications from a pool of 14 with prefix-related long keys, abbreviations on and off: every definition compared with the set model (refuse iff short or long key taken), then every exact key and every prefix of every long key looked up on the real handler',
    level_note='trusts the 4-line set model; pool of 2 short and 4 long keys; one-character prefixes are outside (the library reads --x as the short key x)',
    rule='sequence of key specs (odometer, all orders) x written variant (dash count, order of short/long) x abbreviations; per accepted set one evaluation per exact key and per prefix; states = sequences, transitions = addArgument + evalArguments calls',
    bound={'quick': 'sequences of <= 4 specifications; sequences of <= 3 also with every argument defined as a sub-group opener', 'thorough': 'sequences of <= 5 specifications; sub-group openers as in quick'},
    assumptions=['every lookup uses a fresh handler with the same definitions (a handler is evaluated once)'])

CHECKS['C06'] = dict(title='Multi-value destinations end up as the fold of all values given', engine='xenum',
    harness=['harness/c06_containers.cpp'], flags='asan', lib=True, level='model_checking', deadline={'quick': 300, 'thorough': 2400}, hang_s=60,
    technique='bounded-exhaustive enumeration: destination kinds x option combinations x ALL element sequences up to a length x EVERY cut into uses, against a reference fold',
    level_text='13 container kinds + int[3], array, tuple, bitset, vector<bool>, DynamicBitset, 4 key-value containers; every supported combination of separator/clear/sort/unique/multi-value/check/initial content; every sequence of <= 3 (quick) / <= 4 (thorough) elements incl. duplicates and an out-of-range element; every way of cutting the sequence into uses and free values',
    level_note='trusts the reference fold (placement rules taken from the adapters\' documented behaviour); lists with empty elements are outside (no documented meaning)',
    rule='kind x options (odometer) x element sequence x cut (2^(n-1) compositions) x free-value form; states = option configurations accepted by the destination, transitions = evalArguments calls; all cuts of one sequence are compared with the same fold',
    bound={'quick': 'sequences <= 3 over {0,1,2,7,14} / {a,b,B}; separators , ; string kinds with a general or a position-1 formatter', 'thorough': 'sequences <= 4; separators , ; .'},
    assumptions=['option combinations a destination refuses at definition time are skipped and counted', 'unordered containers are compared as multisets'])

CHECKS['C07'] = dict(title='Arguments from a string, a file or the environment equal the same words on argv', engine='xenum',
    harness=['harness/c07_sources.cpp'], flags='asan', lib=True, level='model_checking', deadline={'quick': 300, 'thorough': 2400}, hang_s=60,
    technique='bounded-exhaustive enumeration: all word lists over a quoting alphabet x all escape styles (inverse property); all abstract lines x ALL splits of their uses over argv/file/argument-file/environment x file layouts',
    level_text='quoting: every list of <= 3 words over {a, blank, single quote, double quote, backslash} in 4 escape styles per word; sources: every line of <= 2 (quick) / <= 3 (thorough) uses, every assignment of each use to one of the 4 sources, 2 file layouts x 4 comment/empty-line decorations, compared with the abstract evaluator (verdict and values)',
    level_note=_ARGS_NOTE + '; file lines are newline-terminated (a last line without newline is outside); real files in a private per-worker HOME',
    rule='part 1: word list x style vector (odometer); part 2: configuration x use sequence x source vector in {A,P,F,E}^n x layout x decoration; states = cases, transitions = make_arg_array/evalArguments calls',
    bound={'quick': 'words <= 3 chars, lists <= 3 (3rd level single chars); lines <= 2 uses (string values with blank, quotes, trailing blank, blank+#)', 'thorough': 'lists of 3 with words <= 2 chars; lines <= 3 uses'},
    assumptions=['the environment variable is $PROG (upper-cased program name), HOME is a scratch directory owned by the worker'])

CHECKS['C08'] = dict(title='Evaluating through an argument group equals one handler owning all arguments', engine='xenum',
    harness=['harness/c08_groups.cpp'], flags='asan', lib=True, level='model_checking', deadline={'quick': 300, 'thorough': 2400}, hang_s=60,
    technique='bounded-exhaustive differential enumeration: rule-matrix configurations x ALL set partitions into member handlers x all lines up to a depth, Groups evaluation against single-handler evaluation',
    level_text='every configuration of the C02/C03 rule matrix x every set partition of its arguments into <= 3 member handlers (both member creation orders) x every line of <= 2 (quick) / <= 3 (thorough) uses in canonical spelling + 1 deviation: Groups::evalArguments must accept/reject and store exactly like one Handler with the merged definition; plus duplicate-key definitions across two members in all creation/definition orders',
    level_note='reference is the single Handler (itself checked against the abstract evaluator by C01-C03); partitions that separate constraint partners are skipped; the Groups singleton is reset before and after every case',
    rule='configuration x partition (restricted growth strings) x member creation order x use sequence x spelling; states = (configuration, partition), transitions = Groups::evalArguments calls',
    bound={'quick': 'lines <= 2 uses (<= 3 for the order-sensitive multi-value/positional family), abbreviations on', 'thorough': 'lines <= 3 uses, abbreviations on and off'},
    assumptions=['abbreviations are only spelled when they are unambiguous in the merged definition'])

CHECKS['C04'] = dict(title='Argument evaluation is memory-safe for every argument vector and source', engine='xenum',
    harness=['harness/c04_memsafe.cpp'], flags='asan', lib=True, level='model_checking', deadline={'quick': 300, 'thorough': 2400}, hang_s=30, max_restarts=400,
    technique='bounded-exhaustive enumeration of argument vectors (raw character alphabet, template-derived tokens, program names) x argument sources, executed under AddressSanitizer/UBSan with per-case crash attribution',
    level_text='every argv of <= 2 words of <= 3 raw characters (quick: second word <= 2), every line of <= 3 (quick) / <= 4 (thorough) tokens, program names of every length up to 3 and at allocator boundaries, each through 8 source/flag modes (plain, program-argument file absent/present, environment unset/empty/set, argument file, Groups) on a handler with every destination kind',
    level_note='oracle is the sanitizer (heap/stack/global overflow, use after free, mismatched delete, null dereference, libstdc++ assertions) + outcome type; a crash ends the case it occurs in (the remaining lines of that case are not run, the case is reported)',
    rule='case = (alphabet family, first word[s]); within a case all continuations x 8 modes; states = argument vectors x modes, transitions = evalArguments calls; non-trivial = cases',
    bound={'quick': 'raw: 1156 first words (<= 3 chars over 10 characters; <= 2 chars also over blank and 0xff) x 156 second words; tokens: lines <= 3 of 61 tokens; 70 program names incl. the empty one; lists of 0..24 values into vector / int[16] / array<int,16> / 12-tuple with a formatter for position 0..2', 'thorough': 'raw: 1156 x 1156, 3 words of <= 2 chars; tokens: lines <= 4 (4th token in plain mode)'},
    assumptions=['argc >= 1 and argv[argc] == nullptr (what the C runtime guarantees)', 'exit() is interposed: the help arguments are used with "continue after usage"'])

CHECKS['C18'] = dict(title='The usage lists exactly the visible arguments, each once', engine='xenum',
    harness=['harness/c18_usage.cpp'], flags='asan', lib=True, level='model_checking', deadline={'quick': 240, 'thorough': 2400}, hang_s=60,
    technique='bounded-exhaustive enumeration: all argument sets up to a size over key kind/length, mandatory, visibility, description and feature domains x ALL usage display settings, usage text parsed and compared with a reference visibility predicate',
    level_text='every set of 1 and 2 (thorough: 3) arguments over {short, long, both} x long-key lengths around the same-line threshold x mandatory/optional x {normal, hidden, deprecated, replaced, hidden+deprecated} x 3 description shapes x {check, default off, constraint}, displayed with every combination of -h/--help, print-hidden {off, flag, argument}, print-deprecated {off, flag, argument}, contents {all, short, long}; plus single-argument help for every spelling of every key and for unknown keys',
    level_note='oracle parses the real usage text (entry = line with 3 blanks and a dash) and trusts a 3-line visibility predicate taken from the property statement; standard arguments (help, print-hidden, ...) are checked like user arguments; order of entries inside a caption is not judged',
    rule='argument set (odometer over per-argument domains) x display setting; states = (argument set, display setting), transitions = evalArguments calls that print a usage or a single-argument help; non-trivial = argument sets',
    bound={'quick': '1 argument: full domain (810 sets) x 54 display settings; 2 arguments: 8100 (shape, mandatory, visibility) pairs with description/feature on a diagonal x 54 display settings; help-arg with prefix-related keys',
           'thorough': '2 arguments: 8100 pairs x 12 description/feature combinations x 54 display settings; 3 arguments: 110592 triples (6 shapes, 4 visibilities) x 12 display settings'},
    assumptions=['mandatory + deprecated/replaced is refused by the library at definition time: skipped and counted', 'the default value is expected for optional arguments unless switched off (the statement says "where configured")'])

CHECKS['C15'] = dict(title='Rolling log files keep the most recent messages, complete and in order', engine='xstate',
    harness=['harness/c15_rolling.cpp'], flags='asan', lib=True, level='model_checking', deadline={'quick': 240, 'thorough': 2400}, hang_s=60,
    technique='explicit-state model checking of the real file handler: every history of message/restart/crash events up to a depth, executed on real files, invariants and a transition relation checked after every event; crash points inside the roll-over enumerated',
    level_text='21 policies (Counted 1..3 entries, MaxSize 5/8/12/20 bytes, 1..3 generations) x every history of <= 6 (quick) / <= 8 (thorough) events over {message of 1, 3, 6 characters, clean restart}; thorough adds crash-without-destructor and a crash at every rename point inside a roll-over (histories <= 6); after every event the files on disk are compared with the list of all messages written',
    level_note='oracle: retained generations = suffix of all messages, per-generation limit, generation count, and a transition check (append or justified roll-over); a roll-over at restart is tolerated when generation 0 cannot take any message; crashes are placed at file-function boundaries (rename), torn writes of a single message are outside',
    rule='history (sequence of events, DFS) per policy; state = (policy, per-generation message lengths, policy counter), transitions = events executed on the real handler; evaluations = histories checked; non-trivial = (policy, first two events) subtrees',
    bound={'quick': 'histories <= 6 events over {m1,m3,m6,R}', 'thorough': 'histories <= 8 over {m1,m3,m6,R}; histories <= 6 over {m1,m3,m6,R,C, mL!k for k = 0..2}'},
    assumptions=['every message is flushed by std::endl before the call returns, so every point between two events is a crash point', 'messages are unique (sequence digit + letters), lengths 1/3/6: longer than, equal to and shorter than the small limits'])

CHECKS['C14'] = dict(title='A log message reaches exactly the destinations whose filters it passes', engine='xenum',
    harness=['harness/c14_filters.cpp'], flags='asan', lib=True, level='model_checking', deadline={'quick': 240, 'thorough': 2400}, hang_s=60,
    technique='bounded-exhaustive enumeration of filter-setting histories (every filter type/level/class subset, every duplicate policy at every position, object creation order) x all (level, class) messages x all ways of addressing the logs, executed on the real Logging singleton against a reference filter model',
    level_text='every single filter setting (18 level settings, all 63 class subsets in 3 casings) on a log and on a destination; every history of <= 3 (quick) / <= 4 (thorough) settings over 25 representative settings on a log and one of its destinations, with the duplicate policy (ignore/replace/exception) set at every position and a second log created before or after the policy is set; every one of the 36 (level, class) messages sent by id mask (single, both, with an unused bit) and by name; deliveries to the filtered destination, its sibling and the other log compared with the reference; level pre-check compared with the full filters',
    level_note='trusts the 15-line reference (value in effect per filter type under the policy; conjunction of filters); the undefined level/class are outside; a destination belongs to one log',
    rule='history = sequence of (target, setting) steps + policy + policy position + creation order (odometer); states = histories executed, transitions = message deliveries through Logging::log; non-trivial = setting sequences',
    bound={'quick': 'part A complete; histories of 2 and 3 settings (<= 3 on the log, <= 1 on the destination); level histories of 4 settings with an A..B..A pattern', 'thorough': 'histories up to 4 settings (<= 3 on the log, <= 2 on the destination; 4-step histories only with a duplicate filter type); level histories of 4 and 5 settings'},
    assumptions=['levels and classes 1..6 (undefined excluded)', 'class lists are written without blanks around the commas'])

CHECKS['C16'] = dict(title='Every delivered log message is rendered exactly as its format definition says', engine='xenum',
    harness=['harness/c16_format.cpp'], flags='asan', lib=True, level='model_checking', deadline={'quick': 240, 'thorough': 2400}, hang_s=60,
    technique='bounded-exhaustive enumeration of format definitions built through the real Creator (all field kinds x width x alignment x format string x separator settings, up to 3 items) x messages, and of attribute operation histories, rendered through the real stream destination and compared with an independent renderer',
    level_text='every definition of 1, 2 and 3 (third level with thinned options) items over 16 field kinds x widths {0,3,12} x alignment x format string {none, %H:%M, %d.%m.%Y} before every kind of field, separator {none, |, -} initially and changed before a later item; messages over all levels, classes, texts, 4 time stamps around the day boundary with sub-second parts; every attribute operation sequence of <= 5 (thorough 6) over global add/remove and scoped open/close on 2 names with 4 message-own attribute variants, message rendered after every operation',
    level_note='trusts the 60-line reference renderer (own calendar arithmetic, setw-style padding); pid/thread id/function name are read back from the message object; TZ=UTC; removing a scoped attribute by hand is unspecified and skipped',
    rule='definition = item sequence with pending options + separator settings (odometer) x message; attribute history = operation sequence (DFS); states = definitions + attribute histories, transitions = messages rendered through LogDestStream; non-trivial = (first item[, second item]) cases',
    bound={'quick': '1 item: 288 option sets x 3 separators x message product; 2 items: 288^2 x 8 separator settings x 3 messages; 3 items: 128^3 thinned option sets x 6 separator settings; attribute operations <= 5',
           'thorough': '2 items x 6 messages; 3 items: 288 x 128^2 option sets x 6 separator settings; attribute operations <= 6'},
    assumptions=['the automatic separator is placed between any two items, constant text included (as the in-tree creator test documents)', 'message-own attribute values are non-empty (an empty own value falls through to the global one by design)'])

_SCHED = dict(engine='xsched', flags='tsanabi', level='model_checking', extra_sources=[dict(src='engine/sched/xsched.cpp', flags='rt')], extra_ldflags=['-ldl'], hang_s=120,
    technique='stateless model checking of the real threads: cooperative scheduler over compiler-reported accesses (own TSan-ABI runtime), all schedules up to a preemption bound by depth-first re-execution in fresh processes, vector-clock data-race detection on every explored schedule; the detector is cross-checked by a free-running pass of the same bodies under the real ThreadSanitizer')
CHECKS['C20'] = dict(_SCHED, title='Concurrency helpers keep their contract under every schedule', harness=['harness/c20_helpers.cpp'], lib=False,
    also_build=[dict(name='free', build_id='C20free', harness=['harness/c20_helpers.cpp'], flags='tsan', lib=False)], deadline={'quick': 240, 'thorough': 2400},
    level_text='6 scenarios (2 and 3 threads racing for the first Singleton access, one thread accessing twice; ManagedThread sampled by its creator and by a third thread, and with a thread function that finishes at once): every schedule with <= 2-3 (quick) / 3-5 (thorough) preemptions is executed on the real code in a fresh process; per schedule: constructed once, same object, active while provably running, inactive after join, no data race, no deadlock',
    level_note='scheduling points = every synchronisation operation + every access to a static-storage location shared by two threads (learned, reported); sequentially consistent scheduler: behaviours that need weaker orderings than data-race freedom + SC are outside; libstdc++/libc internals are trusted',
    rule='schedule = sequence of choices at scheduling points (DFS with preemption bound, CHESS style); states = executions (complete schedules), transitions = scheduling points passed, traces = executions of the real code; non-trivial = executions with a context switch at a shared location',
    bound={'quick': 'preemption bound 2 (singleton scenarios, observer) / 3 (managed)', 'thorough': 'preemption bound 4/3/3 (singleton) and 5/3 (managed)'},
    assumptions=['sequentially consistent interleaving semantics; acquire/release atomics treated as SC (one atomic flag: per-location coherence decides)', 'the ManagedThread object lives in static storage so that its flag is a candidate scheduling point'])

CHECKS['C09'] = dict(_SCHED, title='Independent handlers can be used concurrently', harness=['harness/c09_concurrent.cpp'], lib=True,
    also_build=[dict(name='free', build_id='C09free', harness=['harness/c09_concurrent.cpp'], flags='tsan', lib=True)], deadline={'quick': 280, 'thorough': 2400},
    level_text='5 handler bodies (list destinations with different separators, checks, argument and handler constraints, key-value destination with usage output, all standard arguments via flags, a rejected line), each first run alone in a fresh process; 10 pairs and two triples explored over every schedule with <= 2-3 (quick) / 2-4 (thorough) preemptions on the real code: per schedule every thread must observe its solo outcome and no data race may occur on static storage or heap of the executable',
    level_note='scheduling points = synchronisation operations (mutex, function-local static guards, thread create/join) + accesses to static-storage locations shared by two threads with a writer (learned per scenario, reported); code inside libstdc++/boost/libc shared objects is not instrumented (trusted); sequentially consistent scheduler',
    rule='scenario (set of bodies) x schedule (DFS over choices at scheduling points, preemption bound); states = executions (complete schedules), transitions = scheduling points passed, traces = executions of the real code; non-trivial = executions with a context switch at a shared location',
    bound={'quick': 'pairs of list/constraint bodies: 3 preemptions; pairs with usage/standard arguments and the triple H1+H2+H5: 2; triple H3+H4+H1: 1', 'thorough': '4 / 3 / 2 preemptions'},
    assumptions=['the documented promise is about handlers that share no destination variables: every thread owns its handler, streams and variables'])

NOT_APPLICABLE = [e for e in NOT_APPLICABLE if e['property_id'] not in CHECKS]
