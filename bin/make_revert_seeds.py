#!/usr/bin/env python3
"""For every 'fixed' entry of known_findings.json: seeded/revert_<property>_<commit>/patch.diff = the reverse of that fix commit
(the original defect as a mutant), with meta.json. Used to show that each check still detects the defect it once found."""
import json, os, subprocess
V = '/verif'
d = json.load(open(os.path.join(V, 'known_findings.json')))
for f in d['findings']:
    if f['kind'] != 'fixed':
        continue
    c = f['commit']; name = 'revert_%s_%s' % (f['property'], c)
    dst = os.path.join(V, 'seeded', name); os.makedirs(dst, exist_ok=True)
    if os.path.exists(os.path.join(dst, 'meta.json')) and 'rebased' in json.load(open(os.path.join(dst, 'meta.json'))):
        print(name, '(rebased by hand: kept)'); continue
    diff = subprocess.run(['git', '-C', '/repo', 'diff', '--binary', c, c + '^'], capture_output=True).stdout      # bytes: some sources have CRLF line ends
    open(os.path.join(dst, 'patch.diff'), 'wb').write(diff)
    mp = os.path.join(dst, 'meta.json'); old = json.load(open(mp)) if os.path.exists(mp) else {}
    meta = dict(name=name, breaks_property=f['property'], needs_to_manifest=f['what'], produced_by='reverse of fix commit %s (the genuine defect the check found on the original tree)' % c,
                confirmed='the defect was reproduced by the check on the original tree before the fix (see known_findings.json)', detected_by=old.get('detected_by', []))
    json.dump(meta, open(mp, 'w'), indent=1)
    print(name)
