#!/bin/bash
# usage: with_patch.sh <patch.diff> <command...>   applies a patch to /repo, runs the command, restores /repo (tracked files)
P=$(realpath "$1"); shift
git -C /repo diff --quiet HEAD || { echo "with_patch: /repo has uncommitted changes"; exit 9; }
git -C /repo apply --3way "$P" >/dev/null 2>&1 || git -C /repo apply "$P" || { echo "with_patch: patch does not apply"; git -C /repo checkout -q HEAD -- .; exit 8; }
"$@"; rc=$?
git -C /repo checkout -q HEAD -- .
exit $rc
