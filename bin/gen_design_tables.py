#!/usr/bin/env python3
"""Regenerates the generated blocks of DESIGN.md (bounds, findings, detection matrix) and the detected_by fields of seeded/*/meta.json.
Sources: bin/checks.py, evidence/*.json, known_findings.json, seeded/*/meta.json, matrix results (seeded/MATRIX.txt, a copy of the
lines bin/seed_matrix.sh printed; later lines win), thorough results (evidence_thorough/*.json if present)."""
import json, os, re, sys, glob
V = '/verif'
sys.path.insert(0, os.path.join(V, 'bin'))
from checks import CHECKS

def block(text, name, body):
    b, e = '<!-- BEGIN:%s -->' % name, '<!-- END:%s -->' % name
    i, j = text.index(b) + len(b), text.index(e)
    return text[:i] + '\n' + body.rstrip() + '\n' + text[j:]

def ev(path):
    try:
        return json.load(open(path))
    except Exception:
        return None

# ---- bounds
rows = ['| id | engine | quick bound | quick: executions / wall | thorough bound | thorough: executions / wall / complete |', '|----|--------|-------------|---------|----------------|---------|']
for cid in sorted(CHECKS):
    c = CHECKS[cid]
    q = ev(os.path.join(V, 'evidence', cid + '.json')); t = ev(os.path.join(V, 'evidence_thorough', cid + '.json'))
    def fmt(e, tier):
        if not e or e.get('tier') != tier:
            return 'n/a'
        cov = e['coverage']
        return '%s / %.0f s%s' % ('{:,}'.format(cov.get('evaluations', 0)), e['wall_s'], '' if tier == 'quick' else (' / yes' if cov.get('exhaustive') else ' / capped'))
    rows.append('| %s | %s | %s | %s | %s | %s |' % (cid, c['engine'], c['bound']['quick'].replace('|', '/'), fmt(q, 'quick'), c['bound']['thorough'].replace('|', '/'), fmt(t, 'thorough')))
bounds = '\n'.join(rows) + '\n\n"executions" = evaluations of the real code (transitions of object states, evalArguments calls, schedules, histories, rendered messages - see each evidence file\'s `rule`).'

# ---- findings
kf = json.load(open(os.path.join(V, 'known_findings.json')))['findings']
lines = ['| property | status | commit | what failed |', '|---|---|---|---|']
for f in kf:
    lines.append('| %s | %s | %s | %s |' % (f['property'], 'repaired' if f['kind'] == 'fixed' else '**known finding** (recorded, printed as KNOWN-FINDING)', f.get('commit', '-'), f['what'].replace('|', '\\|').replace('\n', ' ')))
nfix = sum(1 for f in kf if f['kind'] == 'fixed'); nknown = len(kf) - nfix
findings = '%d defects repaired, %d recorded as known findings.\n\n' % (nfix, nknown) + '\n'.join(lines)

# ---- matrix
res = {}; hist = {}
mp = os.path.join(V, 'seeded', 'MATRIX.txt')
if os.path.exists(mp):
    for line in open(mp):
        m = re.match(r'(\S+) (C\d+) (quick|thorough): (DETECTED|MISSED|BROKEN)(.*)', line.strip())
        if m:
            k = (m.group(1), m.group(2), m.group(3))
            hist.setdefault(k, []).append(m.group(4))
            res[k] = (m.group(4), m.group(5).strip())
rows = ['| seed | breaks | needs to manifest | check result |', '|---|---|---|---|']
det = miss = 0
for d in sorted(glob.glob(os.path.join(V, 'seeded', '*', 'meta.json'))):
    m = json.load(open(d)); name = m['name']; prop = m['breaks_property']
    outcomes = []
    for (s, p, tier), (r, rest) in sorted(res.items()):
        if s == name:
            sig = re.search(r'signature: (.{0,90})', rest)
            earlier = [x for x in hist.get((s, p, tier), [])[:-1] if x != r]
            outcomes.append('%s %s: %s%s%s' % (p, tier, r, (' (`' + sig.group(1).strip() + '`)') if sig and r == 'DETECTED' else '', (' - first run: ' + earlier[0] + ', check strengthened / rebased since') if earlier else ''))
    detected = [o.split(':')[0] for o in outcomes if ': DETECTED' in o]
    m['detected_by'] = ['bin/check %s --tier %s' % tuple(x.split()) for x in detected]
    json.dump(m, open(d, 'w'), indent=1)
    if detected:
        det += 1
    elif outcomes:
        miss += 1
    rows.append('| %s | %s | %s | %s |' % (name, prop, m['needs_to_manifest'].replace('|', '\\|')[:260], '<br>'.join(outcomes) if outcomes else 'not run'))
first_miss = sum(1 for k, v in hist.items() if 'MISSED' in v[:-1] or 'BROKEN' in v[:-1])
matrix = '%d seeded changes detected (by the check of their own property unless the row says otherwise: a row with "<own id> quick: MISSED" followed by another check is caught by that other check only), %d not detected (listed below as MISSED), %d not run. %d of the detected ones were missed (or hit a harness limit) on their first run and are detected since the check was strengthened - marked "first run" below.\n\n' % (det, miss, len(rows) - 2 - det - miss, first_miss) + '\n'.join(rows)

p = os.path.join(V, 'DESIGN.md')
t = open(p).read()
t = block(t, 'bounds', bounds); t = block(t, 'findings', findings); t = block(t, 'matrix', matrix)
open(p, 'w').write(t)
print('DESIGN.md tables regenerated: %d checks, %d findings, %d seeds (%d detected, %d missed)' % (len(CHECKS), len(kf), len(rows) - 2, det, miss))
