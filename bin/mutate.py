#!/usr/bin/env python3
"""Mechanical mutation run: mutate.py <file-in-repo> <check-id>[,<check-id>..] <count> [seed]
Applies <count> single-token mutations (relational/arithmetic/boolean operator swaps, off-by-one on constants) to the file in a
scratch worktree (/tmp/mut/repo, own build cache), runs the quick tier of the given checks on each and appends one line per mutant
to /tmp/mut/results.txt: KILLED by <check> / SURVIVED / NOBUILD, with the diff of survivors in /tmp/mut/survivors/.
This is a tool for finding gaps in the oracles (survivors are triaged by hand: equivalent, outside the property, or a gap)."""
import sys, os, re, random, subprocess, hashlib
V = '/verif'; M = '/tmp/mut'; WT = M + '/repo'
rel = sys.argv[1]; checks = sys.argv[2].split(','); count = int(sys.argv[3]); seed = int(sys.argv[4]) if len(sys.argv) > 4 else 1
os.makedirs(M + '/survivors', exist_ok=True)
if not os.path.isdir(WT):
    subprocess.run(['git', '-C', '/repo', 'worktree', 'add', '--detach', WT, 'HEAD'], check=True, capture_output=True)
head = subprocess.run(['git', '-C', '/repo', 'rev-parse', 'HEAD'], capture_output=True, text=True).stdout.strip()
subprocess.run(['git', '-C', WT, 'reset', '-q', '--hard'], check=True); subprocess.run(['git', '-C', WT, 'checkout', '-q', '--detach', head], check=True)
path = os.path.join(WT, rel); src = open(path).read().split('\n')
OPS = [(r'(?<![<>=!\-+])<=(?!=)', '<'), (r'(?<![<>=!\-+&|])<(?![<=])(?=\s)', '<='), (r'(?<![<>=!\-+])>=(?!=)', '>'), (r'(?<![<>=!\-+&|\->])>(?![>=])(?=\s)', '>='),
       (r'==', '!='), (r'!=', '=='), (r'&&', '||'), (r'\|\|', '&&'), (r'(?<![+\w])\+ 1\b', '+ 0'), (r'(?<![-\w])- 1\b', '- 0'), (r'\+ 1\b', '+ 2'), (r'\b\+\+(\w)', r'--\1'),
       (r'(?<=\s)\+(?=\s)', '-'), (r'(?<=\s)-(?=\s)', '+'), (r'\btrue\b', 'false'), (r'\bfalse\b', 'true'), (r'\bstd::min\b', 'std::max'), (r'\bstd::max\b', 'std::min')]
sites = []
in_block = False
for i, line in enumerate(src):
    st = line.strip()
    if st.startswith('///') or st.startswith('//') or st.startswith('*') or st.startswith('/*') or st.startswith('#') or not st:
        continue
    code = line.split('//')[0]
    if 'template<' in code or 'template <' in code or 'include' in code or 'operator' in code.split('(')[0] and ('<' in code.split('(')[0] or '>' in code.split('(')[0]):
        continue
    for k, (pat, rep) in enumerate(OPS):
        for m in re.finditer(pat, code):
            # skip template angle brackets: a '<' or '>' that touches an identifier/type on both sides without blanks
            sites.append((i, m.start(), m.end(), k))
rnd = random.Random(seed); rnd.shuffle(sites)
done = 0
env = dict(os.environ, CELMA_REPO=WT, VERIF_BUILD=M + '/build', VERIF_EVIDENCE_DIR=M + '/ev', VERIF_REPLAY_DIR=M + '/rep')
for (i, a, b, k) in sites:
    if done >= count:
        break
    line = src[i]; pat, rep = OPS[k]
    new = line[:a] + re.sub(pat, rep, line[a:b], count=1) + line[b:]
    if new == line:
        continue
    mutated = src[:]; mutated[i] = new
    open(path, 'w').write('\n'.join(mutated))
    mid = hashlib.sha1(('%s:%d:%d:%d' % (rel, i, a, k)).encode()).hexdigest()[:8]
    desc = '%s:%d  %s  ->  %s' % (rel, i + 1, line.strip()[:90], new.strip()[:90])
    verdict = 'SURVIVED'
    for c in checks:
        p = subprocess.run([V + '/bin/check', c, '--tier', 'quick'], capture_output=True, text=True, env=env)
        if p.returncode == 1:
            sig = re.search(r'signature: (.{0,100})', p.stdout); verdict = 'KILLED by %s %s' % (c, sig.group(1) if sig else ''); break
        if p.returncode == 2:
            if 'does not build' in p.stdout or 'BUILD FAILED' in p.stderr:
                verdict = 'NOBUILD'; break
            verdict = 'BROKEN(%s) %s' % (c, (p.stdout.strip().split('\n') or [''])[-1][:120]); break
    with open(M + '/results.txt', 'a') as f:
        f.write('%s %s | %s\n' % (mid, verdict, desc))
    if verdict == 'SURVIVED':
        d = subprocess.run(['git', '-C', WT, 'diff'], capture_output=True, text=True).stdout
        open(M + '/survivors/%s_%s.diff' % (checks[0], mid), 'w').write(d)
    print(mid, verdict, '|', desc, flush=True)
    if verdict != 'NOBUILD':
        done += 1
    open(path, 'w').write('\n'.join(src))
subprocess.run(['git', '-C', WT, 'reset', '-q', '--hard'])
