#!/bin/bash
# Runs the repository's pinned baseline (the 42 stable tests of /root/.vp/BASELINE.json) on a source tree,
# WITHOUT the verification guard (CELMA_VERIF undefined), in a build directory outside that tree's sources.
# usage: baseline.sh [srcdir=/repo] [builddir=<mktemp>]   exit 0 iff all 42 stable tests pass
set -u
SRC=${1:-/repo}
B=${2:-}
OWN=""
if [ -z "$B" ]; then B=$(mktemp -d /tmp/celma_baseline.XXXXXX); OWN=1; fi
TESTS="test_adjust test_any_type_base test_bitset_iterator test_bounds_range test_constexpr_string_from test_contains test_current_total test_enum_array test_enum_flags test_filter test_filters test_find_sequence test_first_pass test_fixed_string test_fixed_string_iterator test_fixed_string_reverse_iterator test_has_intersection test_indent_handler test_lazy_ptr test_length_type test_manipulator test_object_enumerator test_parse_filter_string test_random test_range_value_string_h test_read_buffer test_rel_ops_from_less test_reset_at_exit test_scope_exit_execute test_scoped_value test_size_handling test_sleep_on_error_mt test_string_to_h test_string_util test_text_file test_tokenizer test_tokenizer_base test_type_name test_unit_prefixes_h test_value_filter test_value_result test_write_buffer"
cmake -S "$SRC" -B "$B" -G Ninja -DCMAKE_BUILD_TYPE=RelWithDebInfo -DBUILD_TESTING=ON -DCMAKE_POLICY_VERSION_MINIMUM=3.5 \
  -DCMAKE_CXX_FLAGS="-Wno-error" -DCMAKE_C_FLAGS="-Wno-error" > "$B/conf.log" 2>&1 || { echo "BASELINE: configure failed"; tail -20 "$B/conf.log"; exit 2; }
# only the targets of the 42 stable tests are built (the full build stops at print_version_info.cpp anyway)
cmake --build "$B" -j"$(nproc)" --target $TESTS -- -k0 > "$B/build.log" 2>&1
brc=$?
RX=$(echo $TESTS | sed 's/ /|/g')
ctest --test-dir "$B" -j8 --timeout 900 -R "^($RX)\$" > "$B/ctest.log" 2>&1
passed=$(grep -cE '^ *[0-9]+/[0-9]+ Test +#[0-9]+: .*Passed' "$B/ctest.log")
echo "BASELINE: build_rc=$brc passed=$passed/42"
grep -E 'Failed|Not Run|\*\*\*' "$B/ctest.log" | head -20
rc=1; [ "$passed" -eq 42 ] && rc=0
[ -n "$OWN" ] && rm -rf "$B"
exit $rc
